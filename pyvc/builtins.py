"""Builtin models for the symbolic executor (containers, operators, calls, loops)."""
import ast
import z3

from . import smt as S
from .values import *
from .classtable import ClassInfo, ExternalClass, FuncInfo

BUILTIN_NAMES = {
    "len", "range", "enumerate", "zip", "isinstance", "hasattr", "getattr", "int", "float", "bool", "str",
    "repr", "abs", "max", "min", "sum", "all", "any", "sorted", "list", "tuple", "dict", "set", "iter", "next",
    "super", "type", "slice", "filter", "print", "id", "hash", "callable", "reversed", "frozenset", "setattr",
    "JaqalError", "Exception",
}
DSL_NAMES = {
    "is_int", "is_bool", "is_intlike", "is_float", "is_num", "is_str", "is_none", "implies", "iff", "forall_range",
    "exists_range", "forall_in", "type_is", "pow2", "bit", "same", "old", "fresh", "has_key", "dict_lookup",
    "seq_eq", "is_callable", "str_len", "range_len", "singleton", "forall_keys", "iter_pos", "iter_seq", "is_iterator",
    "dict_key_at", "dict_val_at", "dict_len",
}


def _U(msg):
    from .symexec import Unsupported
    return Unsupported(msg)


# ======================================================================== containers
def new_list(eng):
    fr = eng.run.alloc("list", eng.ct.ext["list"])
    fr.length = z3.IntVal(0)
    fr.arr = z3.K(z3.IntSort(), S.VNone)
    return fr


def new_dict(eng, cls="dict"):
    fr = eng.run.alloc("dict", eng.ct.ext[cls])
    fr.length = z3.IntVal(0)                       # number of keys
    fr.arr = z3.K(z3.IntSort(), S.VNone)           # keys in insertion order
    fr.has = z3.K(S.Val, z3.BoolVal(False))
    fr.get = z3.K(S.Val, S.VNone)
    return fr


def new_set(eng):
    fr = eng.run.alloc("set", eng.ct.ext["set"])
    fr.has = z3.K(S.Val, z3.BoolVal(False))
    return fr


def key_norm(eng, k):
    """Dict/set keys: ints and equal floats hash alike; we only support str/int/enum/None/object keys."""
    return eng.to_tv(k).val()


def dict_set(eng, fr, k, v):
    kv = key_norm(eng, k)
    vv = eng.to_tv(v).val()
    had = z3.Select(fr.has, kv)
    hs = z3.simplify(had)
    if z3.is_false(hs):
        fr.arr = z3.Store(fr.arr, fr.length, kv)
        fr.length = fr.length + 1
    elif not z3.is_true(hs):
        fr.arr = z3.If(had, fr.arr, z3.Store(fr.arr, fr.length, kv))
        fr.length = z3.If(had, fr.length, fr.length + 1)
    fr.has = z3.Store(fr.has, kv, z3.BoolVal(True))
    fr.get = z3.Store(fr.get, kv, vv)


class DictView:
    """Uniform read access to fresh and frozen-world dicts."""

    def __init__(self, eng, tv):
        self.eng = eng
        self.tv = tv
        self.fr = eng.run.fresh_of(tv.t) if isinstance(tv, TV) and tv.sort == "val" else None
        if self.fr is not None and self.fr.kind != "dict":
            raise _U("not a dict")
        if self.fr is None and isinstance(tv, TV) and tv.sort == "val":
            ws = eng.run.world_dict_state(tv.t)
            if ws is not None:
                # a world dict that this activation has written to (it is in `modifies`): read its current state
                from .symexec import Fresh
                f = Fresh(-1, "dict", None, None)
                f.length, f.arr, f.has, f.get = ws["len"], ws["arr"], ws["has"], ws["get"]
                self.fr = f

    def has(self, kv):
        if self.fr is not None:
            return z3.Select(self.fr.has, kv)
        return S.dict_has(self.tv.t, kv)

    def get(self, kv):
        if self.fr is not None:
            return z3.Select(self.fr.get, kv)
        return S.dict_get(self.tv.t, kv)

    def nkeys(self):
        if self.fr is not None:
            return self.fr.length
        ln = S.seq_len(S.dict_keys(self.tv.t))
        self.eng.run.assume(ln >= 0)
        return ln

    def key_at(self, i):
        if self.fr is not None:
            return z3.Select(self.fr.arr, i)
        return S.seq_nth(S.dict_keys(self.tv.t), i)

    def val_at(self, i):
        if self.fr is not None:
            return z3.Select(self.fr.get, z3.Select(self.fr.arr, i))
        t = self.tv.t
        # link ordered view and lookup view on demand
        self.eng.run.assume(z3.Implies(z3.And(0 <= i, i < S.seq_len(S.dict_keys(t))),
                                       z3.And(S.dict_has(t, S.seq_nth(S.dict_keys(t), i)),
                                              S.dict_get(t, S.seq_nth(S.dict_keys(t), i)) == S.seq_nth(S.dict_vals(t), i)))) \
            if not _has_quant_var(i) else None
        return S.seq_nth(S.dict_vals(t), i)


def _has_quant_var(e):
    return False


def dict_update(eng, fr, src):
    """fr.update(src) / {**src}."""
    src = eng.to_tv(src)
    dv = DictView(eng, src)
    n = z3.simplify(dv.nkeys())
    if z3.is_int_value(n):
        for k in range(n.as_long()):
            kk = z3.simplify(dv.key_at(z3.IntVal(k)))
            dict_set(eng, fr, tv_val(kk), tv_val(z3.simplify(dv.get(kk))))
        return
    # symbolic source: result described by lookup functions; key order = old keys then new keys of src (abstract)
    x = z3.Const(eng.run.fresh_name("ux"), S.Val)
    nh = z3.Const(eng.run.fresh_name("uhas"), z3.ArraySort(S.Val, z3.BoolSort()))
    ng = z3.Const(eng.run.fresh_name("uget"), z3.ArraySort(S.Val, S.Val))
    eng.run.assume(z3.ForAll([x], z3.Select(nh, x) == z3.Or(z3.Select(fr.has, x), dv.has(x)), patterns=[z3.Select(nh, x)]))
    eng.run.assume(z3.ForAll([x], z3.Select(ng, x) == z3.If(dv.has(x), dv.get(x), z3.Select(fr.get, x)), patterns=[z3.Select(ng, x)]))
    fr.has, fr.get = nh, ng
    old_len = fr.length
    nl = z3.Int(eng.run.fresh_name("ulen"))
    na = z3.Const(eng.run.fresh_name("ukeys"), z3.ArraySort(z3.IntSort(), S.Val))
    k = z3.Int(eng.run.fresh_name("uk"))
    eng.run.assume(nl >= old_len)
    eng.run.assume(nl <= old_len + dv.nkeys())
    eng.run.assume(z3.ForAll([k], z3.Implies(z3.And(0 <= k, k < old_len), z3.Select(na, k) == z3.Select(fr.arr, k)), patterns=[z3.Select(na, k)]))
    if z3.is_int_value(z3.simplify(old_len)) and z3.simplify(old_len).as_long() == 0:
        # fresh empty target: same keys in the same order
        eng.run.assume(nl == dv.nkeys())
        eng.run.assume(z3.ForAll([k], z3.Implies(z3.And(0 <= k, k < nl), z3.Select(na, k) == dv.key_at(k)), patterns=[z3.Select(na, k)]))
    fr.length, fr.arr = nl, na


def set_add(eng, fr, v):
    fr.has = z3.Store(fr.has, key_norm(eng, v), z3.BoolVal(True))


def list_extend(eng, fr, view):
    if view.concrete is not None:
        for it in view.concrete:
            fr.arr = z3.Store(fr.arr, fr.length, eng.to_tv(it).val())
            fr.length = fr.length + 1
        return
    n = z3.simplify(view.length)
    if z3.is_int_value(n) and n.as_long() <= 6:
        for k in range(n.as_long()):
            fr.arr = z3.Store(fr.arr, fr.length, eng.to_tv(view.nth(z3.IntVal(k))).val())
            fr.length = fr.length + 1
        return
    run = eng.run
    k = z3.Int(run.fresh_name("ek"))
    na = z3.Const(run.fresh_name("earr"), z3.ArraySort(z3.IntSort(), S.Val))
    old_len, old_arr = fr.length, fr.arr
    elem = eng.to_tv(view.nth(k - old_len)).val()
    run.assume(z3.ForAll([k], z3.Select(na, k) == z3.If(z3.And(k >= old_len, k < old_len + view.length), elem, z3.Select(old_arr, k)),
                         patterns=[z3.Select(na, k)]))
    fr.arr = na
    fr.length = old_len + view.length


def havoc_fresh(eng, fr):
    run = eng.run
    if fr.kind in ("list", "deque"):
        fr.length = z3.Int(run.fresh_name("hlen"))
        run.assume(fr.length >= 0)
        fr.arr = z3.Const(run.fresh_name("harr"), z3.ArraySort(z3.IntSort(), S.Val))
    elif fr.kind == "dict":
        fr.length = z3.Int(run.fresh_name("hlen"))
        run.assume(fr.length >= 0)
        fr.arr = z3.Const(run.fresh_name("hkeys"), z3.ArraySort(z3.IntSort(), S.Val))
        fr.has = z3.Const(run.fresh_name("hhas"), z3.ArraySort(S.Val, z3.BoolSort()))
        fr.get = z3.Const(run.fresh_name("hget"), z3.ArraySort(S.Val, S.Val))
    elif fr.kind == "set":
        fr.has = z3.Const(run.fresh_name("hhas"), z3.ArraySort(S.Val, z3.BoolSort()))
    elif fr.kind == "obj":
        for f in list(fr.fields):
            fr.fields[f] = z3.Const(run.fresh_name("hf_" + f), S.Val)


def freeze_dict(eng, fr, seen):
    run = eng.run
    x = z3.Const(run.fresh_name("fx"), S.Val)
    run.assume(z3.ForAll([x], S.dict_has(fr.term, x) == z3.Select(fr.has, x), patterns=[S.dict_has(fr.term, x)]))
    run.assume(z3.ForAll([x], S.dict_get(fr.term, x) == z3.Select(fr.get, x), patterns=[S.dict_get(fr.term, x)]))
    run.assume(S.seq_len(S.dict_keys(fr.term)) == fr.length)
    run.assume(S.seq_len(S.dict_vals(fr.term)) == fr.length)
    k = z3.Int(run.fresh_name("fk"))
    run.assume(z3.ForAll([k], z3.Implies(z3.And(0 <= k, k < fr.length), S.seq_nth(S.dict_keys(fr.term), k) == z3.Select(fr.arr, k)),
                         patterns=[S.seq_nth(S.dict_keys(fr.term), k)]))
    run.assume(z3.ForAll([k], z3.Implies(z3.And(0 <= k, k < fr.length), S.seq_nth(S.dict_vals(fr.term), k) == z3.Select(fr.get, z3.Select(fr.arr, k))),
                         patterns=[S.seq_nth(S.dict_vals(fr.term), k)]))
    a = fr.get
    while z3.is_app(a) and a.decl().kind() == z3.Z3_OP_STORE:
        run._freeze_term(a.arg(2), seen)
        a = a.arg(0)


# ======================================================================== sequence views
def seq_view(eng, v):
    from .symexec import SeqView
    run = eng.run
    if isinstance(v, SeqView):
        return v
    if isinstance(v, GeneratorCall):
        return eager_generator(eng, v)
    if isinstance(v, IterObj):
        # iterating (or unpacking, or list()) an iterator object: the elements from its current position on
        pos, view = v.pos, v.view
        conc = None
        sp = z3.simplify(pos)
        if view.concrete is not None and z3.is_int_value(sp):
            conc = list(view.concrete)[sp.as_long():]
        return SeqView(z3.simplify(view.length - pos), lambda i, view=view, pos=pos: view.nth(pos + i), concrete=conc)
    if isinstance(v, TupleVal):
        items = v.items
        return SeqView(z3.IntVal(len(items)), lambda i, items=items: _concrete_nth(eng, items, i), concrete=list(items))
    if isinstance(v, TV):
        if v.sort == "str":
            s = v.t
            return SeqView(z3.Length(s), lambda i: TV(z3.SubString(s, i, 1), "str"))
        if v.sort != "val":
            raise _U(f"not iterable: {v}")
        fr = run.fresh_of(v.t)
        if fr is not None:
            if fr.kind in ("list", "tuple", "deque"):
                ln = z3.simplify(fr.length)
                arr = fr.arr
                conc = None
                if z3.is_int_value(ln) and ln.as_long() <= 16:
                    conc = [tv_val(z3.simplify(z3.Select(arr, k))) for k in range(ln.as_long())]
                return SeqView(fr.length, lambda i, arr=arr: tv_val(z3.Select(arr, i)), concrete=conc, src=fr)
            if fr.kind == "dict":
                ln = z3.simplify(fr.length)
                arr = fr.arr
                conc = None
                if z3.is_int_value(ln) and ln.as_long() <= 16:
                    conc = [tv_val(z3.simplify(z3.Select(arr, k))) for k in range(ln.as_long())]
                return SeqView(fr.length, lambda i, arr=arr: tv_val(z3.Select(arr, i)), concrete=conc)
            if fr.kind == "obj":
                return _iter_object(eng, v, fr.cls)
            raise _U(f"iteration over fresh {fr.kind}")
        sc = eng.static_class(v)
        if sc is not None and isinstance(sc, ClassInfo):
            return _iter_object(eng, v, sc)
        t = v.t
        wl = run.world_lists.get(t.get_id())
        if wl is not None:
            arr = wl["arr"]
            return SeqView(wl["len"], lambda i, arr=arr: tv_val(z3.Select(arr, i)))
        # frozen-world value: list/tuple/deque -> elements; dict -> keys; repo objects with __iter__ handled by caller
        isd = z3.simplify(eng.isinstance_expr(t, [eng.ct.ext["dict"]]))
        if z3.is_true(isd) or (not z3.is_false(isd) and not run.quick_feasible(z3.Not(isd))):
            kt = S.dict_keys(t)
            run.assume(S.seq_len(kt) >= 0)
            return SeqView(S.seq_len(kt), lambda i: tv_val(S.seq_nth(kt, i)))
        run.assume(S.seq_len(t) >= 0)
        return SeqView(S.seq_len(t), lambda i: tv_val(S.seq_nth(t, i)))
    raise _U(f"not iterable: {v}")


def _iter_object(eng, v, cls):
    r = cls.lookup("__iter__")
    if r and r[0] == "method":
        it = eng.call_function(r[2], [v], {}, self_cls=cls, force_inline=True)
        return seq_view(eng, it)
    raise _U(f"object of class {cls.name} is not iterable")


def _concrete_nth(eng, items, i):
    si = z3.simplify(i) if not isinstance(i, int) else z3.IntVal(i)
    if z3.is_int_value(si):
        return items[si.as_long()]
    res = eng.to_tv(items[-1]).val()
    for k in range(len(items) - 2, -1, -1):
        res = z3.If(si == k, eng.to_tv(items[k]).val(), res)
    return tv_val(res)


# ======================================================================== operators
def need_numeric(eng, v, node):
    if v.sort == "val":
        eng.implicit_raise(z3.Not(S.is_numeric(v.t)), "TypeError", node, "numeric operand")


def _is_num_sort(v):
    return isinstance(v, TV) and v.sort in ("int", "bool", "real")


def py_eq(eng, a, b, node=None, frame=None):
    """Python ==, dispatching to repo __eq__ methods."""
    run = eng.run
    if isinstance(a, BuiltinRef) and a.name == "all":
        a = TV_ALL
    if isinstance(b, BuiltinRef) and b.name == "all":
        b = TV_ALL
    if isinstance(a, TupleVal) and isinstance(b, TupleVal):
        if len(a.items) != len(b.items):
            return tv_bool(False)
        return tv_bool(z3.And([py_eq(eng, x, y, node, frame).truth() for x, y in zip(a.items, b.items)])) if a.items else tv_bool(True)
    if isinstance(a, ClassRef) and isinstance(b, ClassRef):
        return tv_bool(a.cls is b.cls)
    a = eng.to_tv(a)
    b = eng.to_tv(b)
    if frame is not None and isinstance(frame_module(frame), tuple):
        # inside specifications `==` is value equality on numbers/strings/None/enums and identity on
        # objects; it never dispatches to a repository __eq__ (use explicit spec functions for that)
        if a.sort in ("int", "bool") and b.sort in ("int", "bool"):
            return tv_bool(a.as_int() == b.as_int())
        if _is_num_sort(a) and _is_num_sort(b):
            return tv_bool(a.as_real() == b.as_real())
        return tv_bool(S.val_eq(a.val(), b.val()))
    if a.sort in ("int", "bool") and b.sort in ("int", "bool"):
        return tv_bool(a.as_int() == b.as_int())
    if _is_num_sort(a) and _is_num_sort(b):
        return tv_bool(a.as_real() == b.as_real())
    if a.sort == "str" and b.sort == "str":
        return tv_bool(a.t == b.t)
    if a.sort != "val" and b.sort != "val":
        return tv_bool(False)
    # containers: element-wise for fresh/known sequences
    fa = run.fresh_of(a.t) if a.sort == "val" else None
    fb = run.fresh_of(b.t) if b.sort == "val" else None
    for f in (fa, fb):
        if f is not None and f.kind in ("list", "tuple"):
            return _seq_eq(eng, a, b, node, frame)
    # user-defined __eq__ on the left operand's class
    sc = eng.static_class(a)
    if sc is not None and isinstance(sc, ClassInfo):
        r = sc.lookup("__eq__")
        if r and r[0] == "method":
            return _as_bool(eng.call_function(r[2], [a, b], {}, self_cls=sc, node=node))
        return tv_bool(a.val() == b.val())
    if a.sort != "val" or b.sort != "val":
        prim, other = (a, b) if a.sort != "val" else (b, a)
        # primitive vs unknown: equal only if other is the same primitive kind (objects with __eq__ reflected: ignored unless repo class with __eq__)
        oc = eng.static_class(other)
        if oc is not None and isinstance(oc, ClassInfo):
            r = oc.lookup("__eq__")
            if r and r[0] == "method":
                return _as_bool(eng.call_function(r[2], [other, prim], {}, self_cls=oc, node=node))
        eqc = _eq_classes(eng)
        if eqc:
            could = eng.isinstance_expr(other.t, eqc)
            if run.quick_feasible(could):
                return _eq_dispatch(eng, other, prim, node, frame)
        return tv_bool(S.val_eq(prim.val(), other.val()))
    # both unknown Val
    if a.t.eq(b.t):
        eqc = _eq_classes(eng)
        could = eng.isinstance_expr(a.t, eqc) if eqc else z3.BoolVal(False)
        if not run.quick_feasible(could):
            return tv_bool(True)
    return _eq_dispatch(eng, a, b, node, frame)


def _as_bool(v):
    if isinstance(v, TV):
        return v
    return v


def _eq_classes(eng):
    if not hasattr(eng, "_eq_cls"):
        out = []
        for c in eng.ct.all_classes():
            r = c.lookup("__eq__")
            if r and r[0] == "method":
                out.append(c)
        eng._eq_cls = out
    return eng._eq_cls


def _eq_dispatch(eng, a, b, node, frame):
    """a == b where a is a Val of unknown class: case split over classes with __eq__."""
    run = eng.run
    groups = {}
    for c in _eq_classes(eng):
        fi = c.lookup("__eq__")[2]
        groups.setdefault(id(fi), (fi, []))[1].append(c)
    live = []
    for fi, classes in groups.values():
        cond = eng.isinstance_exact(a.t, classes)
        if run.quick_feasible(cond):
            live.append((cond, fi, classes))
    # containers of the frozen world compare element-wise: supported only for lists/tuples/dicts via seq_eq spec
    seqc = eng.isinstance_expr(a.t, [eng.ct.ext[n] for n in ("list", "tuple")])
    dictc = eng.isinstance_expr(a.t, [eng.ct.ext["dict"]])
    sequ = run.quick_feasible(seqc)
    dictu = run.quick_feasible(dictc)
    plain = tv_bool(S.val_eq(a.val(), b.val()))
    if not live and not sequ and not dictu:
        return plain
    merge = run.merge_depth > 0 or run.merge_only
    if merge:
        res = plain
        if sequ:
            res = eng.ite(seqc, _seq_eq(eng, a, b, node, frame), res)
        if dictu:
            res = eng.ite(dictc, _dict_eq(eng, a, b, node, frame), res)
        for cond, fi, classes in live:
            run.cond_stack.append(cond)
            try:
                r = eng.call_function(fi, [a, b], {}, self_cls=classes[0], node=node)
            finally:
                run.cond_stack.pop()
            res = eng.ite(cond, r, res)
        return res
    conds = [c for c, _, _ in live]
    opts = list(live)
    if sequ:
        conds.append(seqc)
        opts.append((seqc, "seq", None))
    if dictu:
        conds.append(dictc)
        opts.append((dictc, "dict", None))
    rest = z3.Not(z3.Or(conds))
    conds.append(rest)
    opts.append((rest, None, None))
    idx = run.choose(len(opts), conds, "eq-dispatch")
    cond, fi, classes = opts[idx]
    run.assume(cond)
    if fi is None:
        return plain
    if fi == "seq":
        return _seq_eq(eng, a, b, node, frame)
    if fi == "dict":
        return _dict_eq(eng, a, b, node, frame)
    return eng.call_function(fi, [a, b], {}, self_cls=classes[0], node=node)


def _seq_eq(eng, a, b, node, frame):
    """list/tuple equality: abstracted by the uninterpreted-but-axiomatised predicate py_seq_eq unless both concrete."""
    try:
        va, vb = seq_view(eng, a), seq_view(eng, b)
    except Exception:
        return tv_bool(z3.BoolVal(False))
    if va.concrete is not None and vb.concrete is not None:
        if len(va.concrete) != len(vb.concrete):
            return tv_bool(False)
        cs = [py_eq(eng, x, y, node, frame).truth() for x, y in zip(va.concrete, vb.concrete)]
        return tv_bool(z3.And(cs) if cs else z3.BoolVal(True))
    if "seq_eq" in eng.cs.specs:
        return eng.call_spec("seq_eq", [eng.to_tv(a), eng.to_tv(b)])
    return _opaque_eq(eng, a, b)


def _dict_eq(eng, a, b, node, frame):
    if "dict_eq" in eng.cs.specs:
        return eng.call_spec("dict_eq", [eng.to_tv(a), eng.to_tv(b)])
    return _opaque_eq(eng, a, b)


OPAQUE_EQ = z3.Function("container_eq", S.Val, S.Val, z3.BoolSort())


def _opaque_eq(eng, a, b):
    """== between containers whose contents are not modelled: an uninterpreted predicate, reflexive."""
    x, y = eng.to_tv(a).val(), eng.to_tv(b).val()
    eng.run.assume(z3.Implies(x == y, OPAQUE_EQ(x, y)))
    return tv_bool(OPAQUE_EQ(x, y))


def compare(eng, op, a, b, node, frame):
    run = eng.run
    if isinstance(op, ast.Eq):
        return py_eq(eng, a, b, node, frame)
    if isinstance(op, ast.NotEq):
        r = py_eq(eng, a, b, node, frame)
        return tv_bool(z3.Not(eng.truth_of(r)))
    if isinstance(op, (ast.Is, ast.IsNot)):
        if isinstance(a, BuiltinRef) and a.name == "all":
            a = TV_ALL
        if isinstance(b, BuiltinRef) and b.name == "all":
            b = TV_ALL
        if isinstance(a, PyObj) or isinstance(b, PyObj):
            if isinstance(a, ClassRef) and isinstance(b, ClassRef):
                r = z3.BoolVal(a.cls is b.cls)
            elif isinstance(a, PyObj) and isinstance(b, PyObj):
                r = z3.BoolVal(a is b)
            else:
                r = z3.BoolVal(False) if not isinstance(a, TupleVal) and not isinstance(b, TupleVal) else z3.BoolVal(False)
        else:
            a, b = eng.to_tv(a), eng.to_tv(b)
            if a.sort != "val" and b.sort != "val" and a.sort != b.sort:
                r = z3.BoolVal(False)
            else:
                r = a.val() == b.val()
        return tv_bool(r if isinstance(op, ast.Is) else z3.Not(r))
    if isinstance(op, (ast.In, ast.NotIn)):
        r = contains(eng, b, a, node, frame)
        return tv_bool(r if isinstance(op, ast.In) else z3.Not(r))
    # ordering
    a, b = eng.to_tv(a), eng.to_tv(b)
    if a.sort == "val" and run.fresh_of(a.t) is None:
        pass
    la = _list_like(eng, a)
    lb = _list_like(eng, b)
    if la is not None or lb is not None:
        if la is not None and lb is not None:
            return _list_order(eng, op, la, lb, node)
        raise _U("ordering between list and non-list")
    for v in (a, b):
        if v.sort == "val":
            # objects with __int__/__lt__ are not supported in ordering: Constant has none -> TypeError
            eng.implicit_raise(z3.Not(S.is_numeric(v.t)), "TypeError", node, "ordering of non-number")
        elif v.sort == "str":
            raise _U("string ordering")
    if a.sort in ("int", "bool", "val") and b.sort in ("int", "bool", "val") and not _maybe_real(eng, a) and not _maybe_real(eng, b):
        x, y = a.as_int(), b.as_int()
    else:
        x, y = a.as_real(), b.as_real()
    if isinstance(op, ast.Lt):
        return tv_bool(x < y)
    if isinstance(op, ast.LtE):
        return tv_bool(x <= y)
    if isinstance(op, ast.Gt):
        return tv_bool(x > y)
    if isinstance(op, ast.GtE):
        return tv_bool(x >= y)
    raise _U("compare op")


def _maybe_real(eng, v):
    if v.sort == "real":
        return True
    if v.sort != "val":
        return False
    return eng.run.quick_feasible(S.is_VReal(v.t))


def _list_like(eng, v):
    if v.sort != "val":
        return None
    fr = eng.run.fresh_of(v.t)
    if fr is not None:
        return seq_view(eng, v) if fr.kind in ("list", "tuple") else None
    if eng.run.marked_list(v.t):
        return seq_view(eng, v)
    return None


def _list_order(eng, op, la, lb, node):
    """Lexicographic order on int lists through spec `lex_lt` if present."""
    raise _U("list ordering")


def contains(eng, container, item, node, frame):
    run = eng.run
    if isinstance(container, TupleVal):
        cs = [py_eq(eng, item, x, node, frame).truth() for x in container.items]
        return z3.Or(cs) if cs else z3.BoolVal(False)
    container = eng.to_tv(container)
    if container.sort == "str":
        return z3.Contains(container.t, eng.to_tv(item).as_str())
    fr = run.fresh_of(container.t)
    iv_ = key_norm(eng, item)
    if fr is not None:
        if fr.kind == "dict" or fr.kind == "set":
            return z3.Select(fr.has, iv_)
        if fr.kind in ("list", "tuple", "deque"):
            view = seq_view(eng, container)
            if view.concrete is not None:
                cs = [py_eq(eng, item, x, node, frame).truth() for x in view.concrete]
                return z3.Or(cs) if cs else z3.BoolVal(False)
            k = z3.Int(run.fresh_name("ck"))
            return z3.Exists([k], z3.And(0 <= k, k < view.length, S.val_eq(z3.Select(fr.arr, k), iv_)))
    t = container.t
    sc = eng.static_class(container)
    if sc is not None and isinstance(sc, ClassInfo):
        raise _U("__contains__ on repo object")
    isd = eng.isinstance_expr(t, [eng.ct.ext["dict"]])
    iss = eng.isinstance_expr(t, [eng.ct.ext["set"], eng.ct.ext["frozenset"]])
    k = z3.Int(run.fresh_name("ck"))
    inseq = z3.Exists([k], z3.And(0 <= k, k < S.seq_len(t), S.val_eq(S.seq_nth(t, k), iv_)))
    d = z3.simplify(isd)
    if z3.is_true(d):
        return S.dict_has(t, iv_)
    if not run.quick_feasible(z3.Not(z3.Or(isd, iss))):
        return z3.If(isd, S.dict_has(t, iv_), S.set_has(t, iv_))
    return z3.If(isd, S.dict_has(t, iv_), z3.If(iss, S.set_has(t, iv_), inseq))


def binop(eng, op, a, b, node, frame, inplace=False):
    run = eng.run
    # list concatenation / repetition / string formatting
    if isinstance(op, ast.Add):
        if isinstance(a, TupleVal) and isinstance(b, TupleVal):
            return TupleVal(a.items + b.items, a.kind)
        la = _seqish(eng, a)
        lb = _seqish(eng, b)
        if la is not None and lb is not None:
            fr = new_list(eng)
            list_extend(eng, fr, seq_view(eng, a))
            list_extend(eng, fr, seq_view(eng, b))
            if inplace and la == "freshlist":
                fa = run.fresh_of(a.t)
                fa.length, fa.arr = fr.length, fr.arr
                return None
            return TV(fr.term)
    if isinstance(op, ast.Mult) and (isinstance(a, TV) and a.sort == "str" or isinstance(b, TV) and b.sort == "str"):
        s, n = (a, b) if a.sort == "str" else (b, a)
        n = eng.to_tv(n)
        if n.is_concrete_int():
            return tv_str(z3.Concat(*([s.t] * n.concrete_int())) if n.concrete_int() > 1 else (s.t if n.concrete_int() == 1 else z3.StringVal("")))
        r = z3.String(run.fresh_name("strrep"))
        run.assume(z3.Length(r) == z3.Length(s.t) * z3.If(n.as_int() > 0, n.as_int(), 0))
        return tv_str(r)
    if isinstance(op, ast.Mod) and isinstance(a, TV) and a.sort == "str":
        return str_percent(eng, a, b, node, frame)
    if isinstance(op, (ast.BitOr, ast.BitAnd, ast.Sub)) and (_is_set(eng, a) or _is_set(eng, b)):
        return set_op(eng, op, a, b, node, frame, inplace)
    a, b = eng.to_tv(a), eng.to_tv(b)
    if a.sort == "str" and b.sort == "str" and isinstance(op, ast.Add):
        return tv_str(z3.Concat(a.t, b.t))
    if isinstance(op, ast.Add) and "str" in (a.sort, b.sort) and "val" in (a.sort, b.sort):
        other = a if a.sort == "val" else b
        eng.implicit_raise(z3.Not(S.is_VStr(other.t)), "TypeError", node, "str + non-str")
        x = a.t if a.sort == "str" else S.sv(a.t)
        y = b.t if b.sort == "str" else S.sv(b.t)
        return tv_str(z3.Concat(x, y))
    for v in (a, b):
        if v.sort == "str":
            eng.implicit_raise(z3.BoolVal(True), "TypeError", node, "str operand")
            raise _U("str arithmetic")
        need_numeric(eng, v, node)
    intmode = not _maybe_real(eng, a) and not _maybe_real(eng, b)
    if isinstance(op, (ast.LShift, ast.RShift, ast.BitAnd, ast.BitOr, ast.BitXor)):
        return bitop(eng, op, a.as_int(), b.as_int(), node)
    if intmode:
        x, y = a.as_int(), b.as_int()
        if isinstance(op, ast.Add):
            return tv_int(x + y)
        if isinstance(op, ast.Sub):
            return tv_int(x - y)
        if isinstance(op, ast.Mult):
            return tv_int(int_mul(x, y))
        if isinstance(op, ast.FloorDiv):
            eng.implicit_raise(y == 0, "ZeroDivisionError", node, "floordiv")
            sy = z3.simplify(y)
            if z3.is_int_value(sy) and sy.as_long() > 0:
                return tv_int(x / sy)
            return tv_int(FDIV(x, y))
        if isinstance(op, ast.Mod):
            eng.implicit_raise(y == 0, "ZeroDivisionError", node, "mod")
            sy = z3.simplify(y)
            if z3.is_int_value(sy) and sy.as_long() > 0:
                return tv_int(x % sy)
            return tv_int(x - int_mul(y, FDIV(x, y)))
        if isinstance(op, ast.Pow):
            sx = z3.simplify(x)
            if z3.is_int_value(sx) and sx.as_long() == 2:
                return tv_int(pow2_term(eng, y))
            sy = z3.simplify(y)
            if z3.is_int_value(sy) and 0 <= sy.as_long() <= 4:
                r = z3.IntVal(1)
                for _ in range(sy.as_long()):
                    r = r * x
                return tv_int(r)
            raise _U("general **")
        if isinstance(op, ast.Div):
            eng.implicit_raise(y == 0, "ZeroDivisionError", node, "div")
            return tv_real(z3.ToReal(x) / z3.ToReal(y))
    else:
        x, y = a.as_real(), b.as_real()
        if isinstance(op, ast.Add):
            return tv_real(x + y)
        if isinstance(op, ast.Sub):
            return tv_real(x - y)
        if isinstance(op, ast.Mult):
            return tv_real(x * y)
        if isinstance(op, ast.Div):
            eng.implicit_raise(y == 0, "ZeroDivisionError", node, "div")
            return tv_real(x / y)
        if isinstance(op, ast.Pow):
            sy = z3.simplify(y)
            if z3.is_rational_value(sy) and sy.as_fraction() == 2:
                return tv_real(x * x)
    raise _U(f"binop {type(op).__name__}")


MUL = z3.Function("mul", z3.IntSort(), z3.IntSort(), z3.IntSort())
FDIV = z3.Function("fdiv", z3.IntSort(), z3.IntSort(), z3.IntSort())
RANGE_LEN = z3.Function("range_len", z3.IntSort(), z3.IntSort(), z3.IntSort(), z3.IntSort())


def int_mul(x, y):
    """Products of two non-literals are an uninterpreted function in proof mode (congruence is all
    the enrolled proofs need; refutation mode maps it back to real multiplication)."""
    sx, sy = z3.simplify(x), z3.simplify(y)
    if z3.is_int_value(sx) or z3.is_int_value(sy):
        return sx * sy
    return MUL(x, y)


def real_semantics_table():
    return {
        "mul": lambda a, b: a * b,
        "fdiv": lambda a, b: _floordiv(a, b),
        "range_len": lambda lo, hi, st: range_len_exact(lo, hi, st),
    }


def _floordiv(x, y):
    # python floor division from SMT-LIB div (remainder always >= 0)
    return z3.If(y > 0, x / y, z3.If(x % y == 0, x / y, x / y - 1))


POW2 = z3.Function("pow2", z3.IntSort(), z3.IntSort())
BITAND = z3.Function("bitand", z3.IntSort(), z3.IntSort(), z3.IntSort())
BITOR = z3.Function("bitor", z3.IntSort(), z3.IntSort(), z3.IntSort())
BITXOR = z3.Function("bitxor", z3.IntSort(), z3.IntSort(), z3.IntSort())
TESTBIT = z3.Function("testbit", z3.IntSort(), z3.IntSort(), z3.BoolSort())


def pow2_term(eng, n):
    sn = z3.simplify(n)
    if z3.is_int_value(sn) and 0 <= sn.as_long() <= 62:
        return z3.IntVal(2 ** sn.as_long())
    eng.run.uses_bits = True
    return POW2(n)


def bitop(eng, op, x, y, node):
    run = eng.run
    run.uses_bits = True
    if isinstance(op, ast.LShift):
        eng.implicit_raise(y < 0, "ValueError", node, "negative shift")
        return tv_int(x * pow2_term(eng, y))
    if isinstance(op, ast.RShift):
        eng.implicit_raise(y < 0, "ValueError", node, "negative shift")
        p = pow2_term(eng, y)
        return tv_int(z3.If(p > 0, (x - x % p) / p, x))
    f = {ast.BitAnd: BITAND, ast.BitOr: BITOR, ast.BitXor: BITXOR}[type(op)]
    return tv_int(f(x, y))


def _seqish(eng, v):
    if isinstance(v, TupleVal):
        return "tuple"
    if isinstance(v, TV) and v.sort == "val":
        fr = eng.run.fresh_of(v.t)
        if fr is not None and fr.kind in ("list", "tuple"):
            return "freshlist"
        if eng.run.marked_list(v.t):
            return "worldlist"
    return None


def _is_set(eng, v):
    if isinstance(v, TV) and v.sort == "val":
        fr = eng.run.fresh_of(v.t)
        if fr is not None:
            return fr.kind == "set"
        return eng.run.marked_set(v.t)
    return False


def set_view(eng, v):
    """membership predicate of a set value"""
    fr = eng.run.fresh_of(v.t)
    if fr is not None:
        has = fr.has
        return lambda x: z3.Select(has, x)
    t = v.t
    return lambda x: S.set_has(t, x)


def set_op(eng, op, a, b, node, frame, inplace):
    run = eng.run
    a, b = eng.to_tv(a), eng.to_tv(b)
    ha, hb = set_view(eng, a), set_view(eng, b)
    x = z3.Const(run.fresh_name("sx"), S.Val)
    nh = z3.Const(run.fresh_name("shas"), z3.ArraySort(S.Val, z3.BoolSort()))
    if isinstance(op, ast.BitOr):
        body = z3.Or(ha(x), hb(x))
    elif isinstance(op, ast.BitAnd):
        body = z3.And(ha(x), hb(x))
    else:
        body = z3.And(ha(x), z3.Not(hb(x)))
    run.assume(z3.ForAll([x], z3.Select(nh, x) == body, patterns=[z3.Select(nh, x)]))
    if inplace:
        fa = run.fresh_of(a.t)
        if fa is not None and not fa.frozen:
            fa.has = nh
            return None
        if run.container_allowed(a.t) or run.set_owner_allowed(a.t):
            run.world_set_write(a.t, nh)
            return None
        run.obligation("frame", z3.BoolVal(False), node, note="in-place set update of a non-fresh set")
        from .symexec import PathEnd
        raise PathEnd()
    fr = new_set(eng)
    fr.has = nh
    return TV(fr.term)


def str_percent(eng, a, b, node, frame):
    fmt = z3.simplify(a.t)
    if not z3.is_string_value(fmt):
        raise _U("% with symbolic format")
    parts = fmt.as_string().split("%s")
    items = b.items if isinstance(b, TupleVal) else [b]
    if len(parts) != len(items) + 1 or "%" in "".join(parts):
        # conversions other than %s (%f, %d, %5.2f ...): the text is an unknown string determined by the format and
        # the arguments (an over-approximation: nothing about its characters is known)
        f = PCT_FORMAT.get(len(items))
        if f is None:
            f = PCT_FORMAT[len(items)] = z3.Function(f"pct_format{len(items)}", z3.StringSort(), *([S.Val] * len(items)), z3.StringSort())
        zargs = []
        for it in items:
            it = eng.to_tv(it)
            eng.run.freeze_value(it)
            zargs.append(it.val())
        eng.run.assumptions_used.add("%-formatting with conversions other than %s yields an unknown string (function of format and arguments); it never raises for numbers")
        return tv_str(f(fmt, *zargs))
    out = []
    for p, it in zip(parts, items):
        if p:
            out.append(z3.StringVal(p))
        out.append(str_of(eng, it, frame))
    if parts[-1]:
        out.append(z3.StringVal(parts[-1]))
    return tv_str(z3.Concat(*out) if len(out) > 1 else out[0])


PCT_FORMAT = {}
STR_OF_INT = z3.Function("str_of_int", z3.IntSort(), z3.StringSort())
STR_OF_REAL = z3.Function("str_of_real", z3.RealSort(), z3.StringSort())
STR_OF_VAL = z3.Function("str_of_val", S.Val, z3.StringSort())
REPR_OF_VAL = z3.Function("repr_of_val", S.Val, z3.StringSort())


def int_to_str(x):
    return z3.If(x >= 0, z3.IntToStr(x), z3.Concat(z3.StringVal("-"), z3.IntToStr(-x)))


def str_of(eng, v, frame, loose=False):
    """z3 String for str(v)."""
    if isinstance(v, PyObj):
        if loose:
            return z3.String(eng.run.fresh_name("str"))
        v = eng.to_tv(v)
    if v.sort == "str":
        return v.t
    if v.sort == "int":
        return int_to_str(v.t)
    if v.sort == "bool":
        return z3.If(v.t, z3.StringVal("True"), z3.StringVal("False"))
    if v.sort == "real":
        return STR_OF_REAL(v.t)
    sc = eng.static_class(v)
    if sc is not None and isinstance(sc, ClassInfo) and not loose:
        r = sc.lookup("__str__")
        if r and r[0] == "method":
            return eng.to_tv(eng.call_function(r[2], [v], {}, self_cls=sc)).as_str()
    t = v.t
    base = STR_OF_VAL(t)
    if loose:
        return z3.If(S.is_VStr(t), S.sv(t), z3.If(S.is_VInt(t), int_to_str(S.iv(t)), base))
    # classes with __str__ (Constant): dispatch
    res = base
    for c in eng.ct.all_classes():
        r = c.lookup("__str__")
        if r and r[0] == "method" and c.lookup("__str__")[1] is c:
            cond = eng.isinstance_expr(t, [c])
            if eng.run.quick_feasible(cond):
                eng.run.merge_depth += 1
                try:
                    val = eng.to_tv(eng.call_function(r[2], [v], {}, self_cls=c)).as_str()
                finally:
                    eng.run.merge_depth -= 1
                res = z3.If(cond, val, res)
    return z3.If(S.is_VStr(t), S.sv(t), z3.If(S.is_VInt(t), int_to_str(S.iv(t)), z3.If(S.is_VReal(t), STR_OF_REAL(S.rv(t)), res)))


# ======================================================================== subscripts
def getitem(eng, base, idx, node, frame):
    run = eng.run
    if isinstance(base, TupleVal):
        i = eng.to_tv(idx)
        if i.is_concrete_int():
            k = i.concrete_int()
            if -len(base.items) <= k < len(base.items):
                return base.items[k]
            eng.implicit_raise(z3.BoolVal(True), "IndexError", node, "tuple index")
            return eng.dead_value()
        return seq_view(eng, base).nth(i.as_int())
    from .symexec import SeqView
    if isinstance(base, SeqView):
        i = eng.to_tv(idx).as_int()
        eng.implicit_raise(z3.Or(i < -base.length, i >= base.length), "IndexError", node, "index")
        return base.nth(z3.If(i < 0, i + base.length, i)) if not _nonneg(eng, i) else base.nth(i)
    if isinstance(base, PyObj):
        raise _U(f"subscript of {base}")
    base = eng.to_tv(base)
    if base.sort == "str":
        i = eng.to_tv(idx).as_int()
        ln = z3.Length(base.t)
        eng.implicit_raise(z3.Or(i < -ln, i >= ln), "IndexError", node, "str index")
        return tv_str(z3.SubString(base.t, z3.If(i < 0, i + ln, i), 1))
    if base.sort != "val":
        eng.implicit_raise(z3.BoolVal(True), "TypeError", node, "not subscriptable")
        return eng.dead_value()
    fr = run.fresh_of(base.t)
    if fr is not None:
        if fr.kind in ("list", "tuple", "deque"):
            i = eng.to_tv(idx).as_int()
            eng.implicit_raise(z3.Or(i < -fr.length, i >= fr.length), "IndexError", node, "list index")
            j = i if _nonneg(eng, i) else z3.If(i < 0, i + fr.length, i)
            return tv_val(z3.simplify(z3.Select(fr.arr, j)))
        if fr.kind == "dict":
            kv = key_norm(eng, idx)
            if fr.default_factory is not None:
                return defaultdict_get(eng, fr, kv, node)
            eng.implicit_raise(z3.Not(z3.Select(fr.has, kv)), "KeyError", node, "dict key")
            return tv_val(z3.simplify(z3.Select(fr.get, kv)))
        if fr.kind == "obj":
            return call_dunder(eng, base, fr.cls, "__getitem__", [idx], node, frame)
    sc = eng.static_class(base)
    if sc is not None and isinstance(sc, ClassInfo):
        return call_dunder(eng, base, sc, "__getitem__", [idx], node, frame)
    t = base.t
    wl = run.world_lists.get(t.get_id())
    if wl is not None:
        # a frozen-world list this activation has mutated (it is in the modifies clause)
        i = eng.to_tv(idx).as_int()
        eng.implicit_raise(z3.Or(i < -wl["len"], i >= wl["len"]), "IndexError", node, "list index")
        j = i if _nonneg(eng, i) else z3.If(i < 0, i + wl["len"], i)
        return tv_val(z3.Select(wl["arr"], j))
    # unknown class: repo classes with __getitem__, dicts, sequences
    cands = []
    groups = {}
    for c in eng.ct.all_classes():
        r = c.lookup("__getitem__")
        if r and r[0] == "method":
            groups.setdefault(id(r[2]), (r[2], []))[1].append(c)
    for fi, classes in groups.values():
        cond = eng.isinstance_exact(t, classes)
        if run.quick_feasible(cond):
            cands.append((cond, ("repo", fi, classes)))
    isd = eng.isinstance_expr(t, [eng.ct.ext["dict"]])
    if run.quick_feasible(isd):
        cands.append((isd, ("dict",)))
    iss = eng.isinstance_expr(t, [eng.ct.ext[n] for n in ("list", "tuple", "deque")])
    if run.quick_feasible(iss):
        cands.append((iss, ("seq",)))
    isstr = S.is_VStr(t)
    if run.quick_feasible(isstr):
        cands.append((isstr, ("str",)))
    eng.implicit_raise(z3.Not(z3.Or([c for c, _ in cands])) if cands else z3.BoolVal(True), "TypeError", node, "not subscriptable")
    if not cands:
        return eng.dead_value()
    if len(cands) > 1 and (run.merge_depth or run.merge_only) and isinstance(frame_module(frame), tuple):
        # specifications subscript data (tuples, lists, dicts), never repo objects
        data = [c for c in cands if c[1][0] in ("dict", "seq")]
        if len(data) == 1:
            cands = data
        elif len(data) == 2:
            kv = key_norm(eng, idx)
            i = eng.to_tv(idx).as_int()
            return tv_val(z3.If(isd, S.dict_get(t, kv), S.seq_nth(t, i)))
    if len(cands) > 1:
        k = run.choose(len(cands), [c for c, _ in cands], "getitem-dispatch") if not (run.merge_depth or run.merge_only) else None
        if k is None:
            raise _U("getitem dispatch in merge mode")
        run.assume(cands[k][0])
        what = cands[k][1]
    else:
        what = cands[0][1]
    if what[0] == "repo":
        return eng.call_function(what[1], [base, idx], {}, self_cls=what[2][0], node=node)
    if what[0] == "dict":
        kv = key_norm(eng, idx)
        eng.implicit_raise(z3.Not(S.dict_has(t, kv)), "KeyError", node, "dict key")
        return tv_val(S.dict_get(t, kv))
    if what[0] == "str":
        return getitem(eng, tv_str(S.sv(t)), idx, node, frame)
    i = eng.to_tv(idx).as_int()
    ln = S.seq_len(t)
    run.assume(ln >= 0)
    eng.implicit_raise(z3.Or(i < -ln, i >= ln), "IndexError", node, "sequence index")
    j = i if _nonneg(eng, i) else z3.If(i < 0, i + ln, i)
    return tv_val(S.seq_nth(t, j))


def _nonneg(eng, i):
    si = z3.simplify(i)
    if z3.is_int_value(si):
        return si.as_long() >= 0
    return not eng.run.quick_feasible(i < 0)


def call_dunder(eng, base, cls, name, args, node, frame):
    r = cls.lookup(name)
    if r and r[0] == "method":
        return eng.call_function(r[2], [base] + list(args), {}, self_cls=cls, node=node)
    eng.implicit_raise(z3.BoolVal(True), "TypeError", node, f"no {name}")
    return eng.dead_value()


def defaultdict_get(eng, fr, kv, node):
    had = z3.Select(fr.has, kv)
    if eng.branch(had, "defaultdict-hit"):
        return tv_val(z3.simplify(z3.Select(fr.get, kv)))
    if fr.default_factory == "set":
        nv = new_set(eng)
    elif fr.default_factory == "list":
        nv = new_list(eng)
    else:
        raise _U("defaultdict factory")
    dict_set(eng, fr, tv_val(kv), TV(nv.term))
    return TV(nv.term)


def setitem(eng, base, idx, value, node, frame):
    run = eng.run
    run.stores_checked += 1
    base = eng.to_tv(base)
    fr = run.fresh_of(base.t) if base.sort == "val" else None
    if fr is None:
        if base.sort == "val" and run.container_allowed(base.t):
            if not run._entails(eng.isinstance_expr(base.t, [eng.ct.ext["dict"]])):
                raise _U("item store into in-world container listed in modifies")
            from .symexec import Fresh
            ws = run.world_dict_state(base.t, create=True)
            f = Fresh(-1, "dict", None, None)
            f.length, f.arr, f.has, f.get = ws["len"], ws["arr"], ws["has"], ws["get"]
            dict_set(eng, f, idx, value)
            ws["len"], ws["arr"], ws["has"], ws["get"] = f.length, f.arr, f.has, f.get
            return
        run.obligation("frame", z3.BoolVal(False), node, note="item store into an object that is not fresh")
        from .symexec import PathEnd
        raise PathEnd()
    if fr.frozen:
        raise _U("item store into frozen fresh container")
    if fr.kind == "dict":
        dict_set(eng, fr, idx, value)
        return
    if fr.kind in ("list", "deque"):
        i = eng.to_tv(idx).as_int()
        eng.implicit_raise(z3.Or(i < -fr.length, i >= fr.length), "IndexError", node, "list store index")
        j = i if _nonneg(eng, i) else z3.If(i < 0, i + fr.length, i)
        fr.arr = z3.Store(fr.arr, j, eng.to_tv(value).val())
        return
    raise _U(f"item store on {fr.kind}")


def setslice(eng, base, sl, value, node, frame):
    run = eng.run
    base = eng.to_tv(base)
    fr = run.fresh_of(base.t) if base.sort == "val" else None
    if sl.lower is None and sl.upper is None and sl.step is None:
        view = seq_view(eng, value)
        if fr is None:
            if base.sort == "val" and run.container_allowed(base.t):
                run.world_list_assign(base.t, view)
                return
            run.obligation("frame", z3.BoolVal(False), node, note="slice store into an object that is not fresh")
            from .symexec import PathEnd
            raise PathEnd()
        fr.length = z3.IntVal(0)
        fr.arr = z3.K(z3.IntSort(), S.VNone)
        list_extend(eng, fr, view)
        return
    raise _U("slice store")


def delitem(eng, base, idx, node, frame):
    run = eng.run
    base = eng.to_tv(base)
    fr = run.fresh_of(base.t) if base.sort == "val" else None
    if fr is None:
        if base.sort == "val" and run.container_allowed(base.t) and run._entails(eng.isinstance_expr(base.t, [eng.ct.ext["dict"]])):
            # a world dict listed in `modifies`: same mutable state as for item stores
            from .symexec import Fresh
            ws = run.world_dict_state(base.t, create=True)
            f = Fresh(-1, "dict", None, None)
            f.length, f.arr, f.has, f.get = ws["len"], ws["arr"], ws["has"], ws["get"]
            kv = key_norm(eng, idx)
            eng.implicit_raise(z3.Not(z3.Select(f.has, kv)), "KeyError", node, "del key")
            ws["has"] = z3.Store(f.has, kv, z3.BoolVal(False))
            ws["len"] = f.length - 1
            ws["arr"] = z3.Const(run.fresh_name("dkeys"), z3.ArraySort(z3.IntSort(), S.Val))
            return
        run.obligation("frame", z3.BoolVal(False), node, note="del item of an object that is not fresh")
        from .symexec import PathEnd
        raise PathEnd()
    if fr.kind == "dict":
        kv = key_norm(eng, idx)
        eng.implicit_raise(z3.Not(z3.Select(fr.has, kv)), "KeyError", node, "del key")
        fr.has = z3.Store(fr.has, kv, z3.BoolVal(False))
        # key order: abstracted
        fr.length = fr.length - 1
        fr.arr = z3.Const(run.fresh_name("dkeys"), z3.ArraySort(z3.IntSort(), S.Val))
        return
    raise _U("del item")


def delattr(eng, base, attr, node, frame):
    raise _U("del attribute")


def slice_of(eng, base, lo, hi, st, node, frame):
    from .symexec import SeqView
    if isinstance(base, TupleVal) and st is None:
        l = eng.to_tv(lo).concrete_int() if lo is not None and eng.to_tv(lo).is_concrete_int() else (0 if lo is None else None)
        h = eng.to_tv(hi).concrete_int() if hi is not None and eng.to_tv(hi).is_concrete_int() else (len(base.items) if hi is None else None)
        if l is not None and h is not None:
            return TupleVal(base.items[l:h], base.kind)
    if isinstance(base, TV) and base.sort == "str":
        s = base.t
        ln = z3.Length(s)
        if st is not None:
            stv = eng.to_tv(st)
            if stv.is_concrete_int() and stv.concrete_int() == -1 and lo is None and hi is None:
                return tv_str(str_reverse(eng, s))
            raise _U("str slice step")
        l = _clamp(eng.to_tv(lo).as_int(), ln) if lo is not None else z3.IntVal(0)
        h = _clamp(eng.to_tv(hi).as_int(), ln) if hi is not None else ln
        return tv_str(z3.SubString(s, l, z3.If(h > l, h - l, 0)))
    view = seq_view(eng, base)
    n = view.length
    if st is not None:
        stv = eng.to_tv(st)
        if stv.is_concrete_int() and stv.concrete_int() == -1 and lo is None and hi is None:
            r = SeqView(n, lambda i: view.nth(n - 1 - i), concrete=list(reversed(view.concrete)) if view.concrete is not None else None)
            return eng.materialise_seq(r, "list")
        raise _U("slice step")
    l = _clamp(eng.to_tv(lo).as_int(), n) if lo is not None else z3.IntVal(0)
    h = _clamp(eng.to_tv(hi).as_int(), n) if hi is not None else n
    ln = z3.If(h > l, h - l, 0)
    sl, sh = z3.simplify(l), z3.simplify(ln)
    conc = None
    if view.concrete is not None and z3.is_int_value(sl) and z3.is_int_value(sh):
        conc = view.concrete[sl.as_long(): sl.as_long() + sh.as_long()]
    r = SeqView(ln, lambda i: view.nth(l + i), concrete=conc)
    kind = "tuple" if isinstance(base, TupleVal) else "list"
    return eng.materialise_seq(r, kind)


def _clamp(i, n):
    j = z3.If(i < 0, i + n, i)
    return z3.If(j < 0, 0, z3.If(j > n, n, j))


STR_REV = z3.Function("str_rev", z3.StringSort(), z3.StringSort())


def str_reverse(eng, s):
    run = eng.run
    r = z3.String(run.fresh_name("reversed"))
    run.assume(r == STR_REV(s))
    run.assume(z3.Length(r) == z3.Length(s))
    run.rev_pairs.append((s, r))
    return r


# ======================================================================== calls
def eval_args(eng, node, frame):
    args = []
    for a in node.args:
        if isinstance(a, ast.Starred):
            args.extend(eng.iter_concrete(eng.eval(a.value, frame)))
        else:
            args.append(eng.eval(a, frame))
    kwargs = {}
    for k in node.keywords:
        if k.arg is None:
            raise _U("**kwargs at call site")
        kwargs[k.arg] = eng.eval(k.value, frame)
    return args, kwargs


def eval_call(eng, node, frame):
    run = eng.run
    fn = node.func
    # super().method(...)
    if isinstance(fn, ast.Attribute) and isinstance(fn.value, ast.Call) and isinstance(fn.value.func, ast.Name) and fn.value.func.id == "super":
        return call_super(eng, fn.attr, node, frame)
    # lazily evaluated contract helpers
    if isinstance(fn, ast.Name) and isinstance(frame_module(frame), tuple) and fn.id in ("old", "forall_range", "exists_range", "forall_in", "implies", "forall_keys"):
        return dsl_lazy(eng, fn.id, node, frame)
    callee = eng.eval(fn, frame)
    star_sym = None
    for a in node.args:
        if isinstance(a, ast.Starred):
            v = eng.eval(a.value, frame)
            try:
                eng.iter_concrete(v)
            except Exception:
                star_sym = v
    if star_sym is not None:
        return call_with_symbolic_star(eng, callee, star_sym, node, frame)
    args, kwargs = eval_args(eng, node, frame)
    return call_value(eng, callee, args, kwargs, node, frame)


def frame_module(frame):
    f = frame
    while f is not None and f.module is None:
        f = f.parent
    return f.module if f else None


def call_value(eng, callee, args, kwargs, node, frame):
    run = eng.run
    if isinstance(callee, BuiltinRef):
        return call_builtin(eng, callee.name, args, kwargs, node, frame)
    if isinstance(callee, SpecRef):
        return eng.call_spec(callee.name, [eng.to_tv(a) if not isinstance(a, ClassRef) else a for a in args])
    if isinstance(callee, FuncRef):
        return eng.call_function(callee.fi, args, kwargs, node=node)
    if isinstance(callee, Closure):
        return eng.call_closure(callee, args, kwargs, node)
    if isinstance(callee, ClassRef):
        return instantiate(eng, callee.cls, args, kwargs, node, frame)
    if isinstance(callee, BoundMethod):
        return call_method(eng, callee, args, kwargs, node, frame)
    if isinstance(callee, TV):
        if callee.sort == "val":
            clo = run.closure_of(callee.t)
            if clo is not None:
                return call_value(eng, clo, args, kwargs, node, frame)
            sc = eng.static_class(callee)
            if sc is not None and isinstance(sc, ClassInfo):
                return call_dunder(eng, callee, sc, "__call__", args, node, frame) if not kwargs else _call_dunder_kw(eng, callee, sc, args, kwargs, node)
            return call_unknown_callable(eng, callee, args, kwargs, node, frame)
        eng.implicit_raise(z3.BoolVal(True), "TypeError", node, "not callable")
        return eng.dead_value()
    raise _U(f"call of {callee}")


def _call_dunder_kw(eng, callee, sc, args, kwargs, node):
    r = sc.lookup("__call__")
    if r and r[0] == "method":
        return eng.call_function(r[2], [callee] + list(args), kwargs, self_cls=sc, node=node)
    raise _U("__call__ with kwargs")


def call_unknown_callable(eng, callee, args, kwargs, node, frame):
    """Calling a Val of unknown class: repo classes with __call__ (gate definitions), else opaque function."""
    run = eng.run
    t = callee.t
    groups = {}
    for c in eng.ct.all_classes():
        r = c.lookup("__call__")
        if r and r[0] == "method":
            groups.setdefault(id(r[2]), (r[2], []))[1].append(c)
    cands = []
    for fi, classes in groups.values():
        cond = eng.isinstance_exact(t, classes)
        if run.quick_feasible(cond):
            cands.append((cond, fi, classes))
    isf = eng.isinstance_expr(t, [eng.ct.ext["function"]])
    opts = list(cands)
    conds = [c for c, _, _ in cands]
    if run.quick_feasible(isf):
        opts.append((isf, None, None))
        conds.append(isf)
    eng.implicit_raise(z3.Not(z3.Or(conds)) if conds else z3.BoolVal(True), "TypeError", node, "not callable")
    if not opts:
        return eng.dead_value()
    if len(opts) == 1:
        k = 0
    else:
        if run.merge_depth or run.merge_only:
            raise _U("callable dispatch in merge mode")
        k = run.choose(len(opts), conds, "call-dispatch")
        run.assume(opts[k][0])
    cond, fi, classes = opts[k]
    if fi is None:
        return opaque_call(eng, callee, args, kwargs, node)
    return eng.call_function(fi, [callee] + list(args), kwargs, self_cls=classes[0], node=node)


APPLY = {}


def opaque_call(eng, callee, args, kwargs, node):
    """Result of calling an unknown pure python function value (user supplied ideal_unitary...):
    an uninterpreted function of the callee and its (materialised) arguments."""
    n = len(args)
    f = APPLY.get(n)
    if f is None:
        f = APPLY[n] = z3.Function(f"apply{n}", *([S.Val] * (n + 2)))
    if kwargs:
        raise _U("opaque call with kwargs")
    zargs = []
    for a in args:
        a = eng.to_tv(a)
        eng.run.freeze_value(a)
        zargs.append(a.val())
    eng.run.assumptions_used.add("user-supplied callables are pure functions of their arguments")
    if eng.run.track_exc or eng.run.try_depth:
        eng.run.assumptions_used.add("user-supplied callables do not raise")
    return tv_val(f(callee.t, *zargs))


def call_with_symbolic_star(eng, callee, star, node, frame):
    """f(*xs) with xs of symbolic length: only for contracted callees taking *args, or opaque callables."""
    pos = [eng.eval(a, frame) for a in node.args if not isinstance(a, ast.Starred)]
    if len(pos) + 1 != len(node.args):
        raise _U("several starred arguments")
    if isinstance(callee, TV) and callee.sort == "val":
        # opaque callable applied to a list: model as apply1 on the materialised list
        lst = eng.to_tv(star)
        eng.run.freeze_value(lst)
        f = APPLY.get("star")
        if f is None:
            f = APPLY["star"] = z3.Function("apply_star", S.Val, S.Val, S.Val)
        if pos:
            raise _U("positional + symbolic star on opaque callable")
        clo = eng.run.closure_of(callee.t)
        if clo is not None:
            return call_value(eng, clo, [StarArgs(star)], {}, node, frame)
        sc = eng.static_class(callee)
        if sc is not None and isinstance(sc, ClassInfo):
            r = sc.lookup("__call__")
            if r and r[0] == "method":
                return eng.call_function(r[2], [callee, StarArgs(star)], {}, self_cls=sc, node=node)
        eng.run.assumptions_used.add("user-supplied callables are pure functions of their arguments")
        return tv_val(f(callee.t, lst.val()))
    if isinstance(callee, (FuncRef, Closure, BoundMethod)):
        kw = {}
        for k in node.keywords:
            if k.arg is None:
                kw["**"] = eng.eval(k.value, frame)       # f(*a, **k): forwarded to the callee's **kwargs as is
            else:
                kw[k.arg] = eng.eval(k.value, frame)
        return call_value(eng, callee, pos + [StarArgs(star)], kw, node, frame)
    raise _U("symbolic star call")


class StarArgs(PyObj):
    """Marker: the remaining positional arguments are this symbolic sequence."""
    def __init__(self, seq):
        self.seq = seq


def call_super(eng, name, node, frame):
    f = frame
    while f is not None and f.cls is None:
        f = f.parent
    if f is None:
        raise _U("super() outside class")
    cls = f.cls
    # self value: first parameter of the enclosing method frame
    mf = frame
    while mf is not None and mf.self_val is None:
        mf = mf.parent
    if mf is None:
        raise _U("super() without self")
    selfv = mf.self_val
    dyn = eng.static_class(selfv) or cls
    mro = dyn.mro if isinstance(dyn, ClassInfo) else cls.mro
    if cls not in mro:
        mro = cls.mro
    after = mro[mro.index(cls) + 1:]
    args, kwargs = eval_args(eng, node, frame)
    for c in after:
        if isinstance(c, ClassInfo) and name in c.methods:
            return eng.call_function(c.methods[name], [selfv] + args, kwargs, self_cls=dyn, node=node)
        if isinstance(c, ExternalClass) and name in c.attrs:
            if name == "__init__":
                return TV_NONE
            raise _U(f"super().{name} reaches external class {c.name}")
    raise _U(f"super().{name} not found")


# ------------------------------------------------------------------------ instantiate
def instantiate(eng, cls, args, kwargs, node, frame):
    run = eng.run
    ct = eng.ct
    if isinstance(cls, ExternalClass):
        n = cls.name
        if n in ("dict", "OrderedDict"):
            fr = new_dict(eng, n)
            if args:
                src = args[0]
                try:
                    dict_update(eng, fr, src)
                except Exception:
                    # iterable of pairs
                    view = seq_view(eng, src)
                    if view.concrete is None:
                        return dict_from_pairs(eng, fr, view)
                    for it in view.concrete:
                        k, v = eng.unpack(it, 2, node)
                        dict_set(eng, fr, k, v)
            for k, v in kwargs.items():
                dict_set(eng, fr, tv_str(k), v)
            return TV(fr.term)
        if n == "defaultdict":
            fr = new_dict(eng, n)
            fac = args[0] if args else None
            if isinstance(fac, ClassRef) and fac.cls.name in ("set", "list"):
                fr.default_factory = fac.cls.name
            else:
                raise _U("defaultdict factory")
            return TV(fr.term)
        if n in ("list", "tuple"):
            if not args:
                return TV(new_list(eng).term) if n == "list" else TupleVal([], "tuple")
            view = seq_view(eng, args[0])
            return eng.materialise_seq(view, n)
        if n == "deque":
            fr = run.alloc("deque", cls)
            fr.length = z3.IntVal(0)
            fr.arr = z3.K(z3.IntSort(), S.VNone)
            if args:
                list_extend(eng, fr, seq_view(eng, args[0]))
            return TV(fr.term)
        if n == "set":
            fr = new_set(eng)
            if args:
                view = seq_view(eng, args[0])
                if view.concrete is not None:
                    for it in view.concrete:
                        set_add(eng, fr, it)
                else:
                    x = z3.Const(run.fresh_name("sx"), S.Val)
                    k = z3.Int(run.fresh_name("sk"))
                    nh = z3.Const(run.fresh_name("shas"), z3.ArraySort(S.Val, z3.BoolSort()))
                    run.assume(z3.ForAll([x], z3.Select(nh, x) == z3.Exists([k], z3.And(0 <= k, k < view.length, eng.to_tv(view.nth(k)).val() == x))))
                    fr.has = nh
            return TV(fr.term)
        if n == "slice":
            fr = run.alloc("obj", cls)
            vals = [eng.to_tv(a).val() for a in args]
            if len(vals) == 1:
                vals = [S.VNone, vals[0], S.VNone]
            elif len(vals) == 2:
                vals = vals + [S.VNone]
            fr.fields.update(dict(zip(("start", "stop", "step"), vals)))
            return TV(fr.term)
        if n in ("int", "float", "str", "bool"):
            return call_builtin(eng, n, args, kwargs, node, frame)
        if cls.is_subclass_of(ct.ext["BaseException"]):
            fr = run.alloc("obj", cls)
            return TV(fr.term)
        raise _U(f"instantiate external {n}")
    # repo class
    if any(getattr(b, "name", None) == "Enum" for b in cls.mro):
        return enum_make(eng, cls, args, node, frame)
    fr = run.alloc("obj", cls)
    selfv = TV(fr.term)
    r = cls.lookup("__init__")
    if r and r[0] == "method":
        eng.call_function(r[2], [selfv] + list(args), kwargs, self_cls=cls, node=node)
    elif args or kwargs:
        if not cls.is_subclass_of(ct.ext["BaseException"]):
            raise _U(f"{cls.name}() with arguments but no __init__")
    return selfv


def dict_from_pairs(eng, fr, view):
    raise _U("dict from symbolic pair sequence")


def enum_make(eng, cls, args, node, frame):
    """ParamType(obj): value lookup.  Members: name -> literal value."""
    v = eng.to_tv(args[0])
    members = eng.enum_ids[cls.key]
    res = None
    conds = []
    for name, k in members.items():
        expr = cls.class_attrs[name]
        if isinstance(expr, ast.Constant) and expr.value is None:
            c = v.val() == S.VNone
        else:
            c = z3.BoolVal(False)   # enum.auto() values are ints 1..n: compare by int value
            idx = list(members).index(name) + 1
            c = z3.And(S.is_VInt(v.val()), S.iv(v.val()) == idx) if v.sort in ("val", "int") else z3.BoolVal(False)
        # passing a member returns the member itself
        c = z3.Or(c, v.val() == S.VEnum(z3.IntVal(eng.clsid(cls)), z3.IntVal(k)))
        conds.append(c)
        term = S.VEnum(z3.IntVal(eng.clsid(cls)), z3.IntVal(k))
        res = term if res is None else z3.If(c, term, res)
    eng.implicit_raise(z3.Not(z3.Or(conds)), "ValueError", node, "enum value")
    return tv_val(res)


def enum_attr(eng, base, attr, node, frame):
    raise _U(f"enum attribute {attr}")


# ------------------------------------------------------------------------ attribute helpers
def pyobj_attr(eng, base, attr, node, frame):
    ct = eng.ct
    if isinstance(base, ModuleRef):
        if base.name in ct.modules:
            r = ct.resolve_name(base.name, attr)
            if r is None:
                sub = f"{base.name}.{attr}"
                if sub in ct.modules:
                    return ModuleRef(sub)
                raise _U(f"module attr {base.name}.{attr}")
            return eng._wrap_resolved(r, base.name, attr)
        sub = f"{base.name}.{attr}"
        if any(m.startswith(sub) for m in ct.modules):
            return ModuleRef(sub)
        return BuiltinRef(f"{base.name}.{attr}")
    if isinstance(base, ClassRef):
        cls = base.cls
        if isinstance(cls, ClassInfo):
            if cls.key in eng.enum_ids and attr in eng.enum_ids[cls.key]:
                return tv_val(S.VEnum(z3.IntVal(eng.clsid(cls)), z3.IntVal(eng.enum_ids[cls.key][attr])))
            if attr == "__name__":
                return tv_str(cls.name)
            r = cls.lookup(attr)
            if r and r[0] == "method":
                fi = r[2]
                if fi.kind == "classmethod":
                    return BoundMethod(base, attr, candidates=[([cls], fi)])
                return FuncRef(fi)
            if r and r[0] == "attr":
                return eng.class_attr_value(r[1], attr, r[2])
        if attr == "__name__":
            return tv_str(cls.name)
        raise _U(f"class attribute {cls.name}.{attr}")
    if isinstance(base, TupleVal):
        return BoundMethod(base, attr)
    if isinstance(base, BuiltinRef):
        return BuiltinRef(f"{base.name}.{attr}")
    if isinstance(base, (Closure, FuncRef)):
        # function attributes (_monkeypatch_sly._called_once)
        return FuncAttr(base, attr)
    from .symexec import SeqView
    if isinstance(base, SeqView):
        return BoundMethod(base, attr)
    raise _U(f"attribute {attr} of {base}")


class FuncAttr(PyObj):
    def __init__(self, fn, attr):
        self.fn, self.attr = fn, attr


def eng_frame_for(eng, cls):
    from .symexec import Frame
    return Frame({}, module=cls.module, cls=cls)


def prim_attr(eng, base, attr, node, frame):
    if base.sort == "str":
        return BoundMethod(base, attr)
    if base.sort in ("int", "bool", "real") and attr in ("real", "imag", "is_integer"):
        if attr == "real":
            return base
        if attr == "imag":
            return tv_int(0)
        return BoundMethod(base, attr)
    eng.implicit_raise(z3.BoolVal(True), "AttributeError", node, f"{base.sort} has no attribute {attr}")
    return eng.dead_value()


def external_attr(eng, base, cls, attr, node, frame):
    run = eng.run
    fr = run.fresh_of(base.t)
    if fr is not None and fr.kind == "obj":
        if attr in fr.fields:
            return tv_val(fr.fields[attr])
    if cls.name == "slice" and attr in ("start", "stop", "step"):
        return eng.read_field(base, attr)
    if cls.lookup(attr) is not None:
        return BoundMethod(base, attr)
    if cls.name == "NoneType" or cls.name in ("int", "float", "bool", "str"):
        eng.implicit_raise(z3.BoolVal(True), "AttributeError", node, f"{cls.name} has no attribute {attr}")
        return eng.dead_value()
    if fr is None:
        return eng.read_field(base, attr)
    eng.implicit_raise(z3.BoolVal(True), "AttributeError", node, f"{cls.name} has no attribute {attr}")
    return eng.dead_value()


def external_attr_groups(eng, attr):
    """(condition-builder, handler) pairs for attributes of builtin values of unknown class."""
    out = []
    ct = eng.ct
    if attr in ("start", "stop", "step"):
        out.append((lambda t: eng.isinstance_expr(t, [ct.ext["slice"]]), lambda base: eng.read_field(base, attr)))
    meth_classes = [c for c in ct.ext.values() if attr in c.attrs and attr not in getattr(c, "data", ()) and c.name not in ("object",)]
    data_classes = [c for c in ct.ext.values() if attr in getattr(c, "data", ())]
    if data_classes:
        out.append((lambda t, dc=data_classes: eng.isinstance_expr(t, dc), lambda base: eng.read_field(base, attr)))
    if meth_classes and attr not in ("start", "stop", "step", "__class__"):
        out.append((lambda t, mc=meth_classes: eng.isinstance_expr(t, mc), lambda base: BoundMethod(base, attr)))
    return out


# ======================================================================== method calls
def call_method(eng, bm, args, kwargs, node, frame):
    run = eng.run
    recv = bm.recv
    name = bm.name
    if bm.candidates:
        classes, fi = bm.candidates[0]
        if fi.key.endswith("visitor:Visitor.visit"):
            return visit_dispatch(eng, recv, args, kwargs, node, frame)
        if fi.kind == "classmethod":
            return eng.call_function(fi, [recv] + list(args), kwargs, self_cls=classes[0], node=node)
        if fi.kind == "staticmethod":
            return eng.call_function(fi, list(args), kwargs, node=node)
        if fi.is_generator:
            return GeneratorCall(fi, [recv] + list(args), kwargs, classes[0])
        return eng.call_function(fi, [recv] + list(args), kwargs, self_cls=classes[0], node=node)
    if isinstance(recv, ClassRef):
        raise _U(f"class method {name}")
    return builtin_method(eng, recv, name, args, kwargs, node, frame)


class GeneratorCall(PyObj):
    def __init__(self, fi, args, kwargs, cls):
        self.fi, self.args, self.kwargs, self.cls = fi, args, kwargs, cls


def visitor_table(eng, vcls):
    """method name selected by Visitor._resolve_method_name for every known class (MRO rule)."""
    key = ("vt", vcls.key)
    c = eng.__dict__.setdefault("_vt_cache", {})
    if key in c:
        return c[key]
    table = {}
    for k in eng.ct.every_class():
        sel = "visit_default"
        for m in k.mro:
            mn = f"visit_{m.name}"
            if vcls.lookup(mn) is not None:
                sel = mn
                break
        # values: builtin `all` etc. have class names that never match
        table.setdefault(sel, []).append(k)
    c[key] = table
    return table


def visit_dispatch(eng, recv, args, kwargs, node, frame):
    """self.visit(obj, ...) : case split by the class of obj using the real MRO rule."""
    run = eng.run
    vcls = eng.static_class(recv)
    if vcls is None:
        raise _U("visit on a visitor of unknown class")
    obj = eng.to_tv(args[0]) if not isinstance(args[0], (BuiltinRef,)) else TV_ALL
    rest = list(args[1:])
    table = visitor_table(eng, vcls)
    sc = eng.static_class(obj)
    opts = []
    for mname, classes in sorted(table.items()):
        if sc is not None:
            if sc in classes:
                opts = [(z3.BoolVal(True), mname)]
                break
            continue
        cond = eng.isinstance_exact(obj.val(), classes)
        if run.quick_feasible(cond, strong=True):
            opts.append((cond, mname))
    if not opts:
        return eng.dead_value()
    merge = run.merge_depth > 0 or run.merge_only

    def do(mname):
        r = vcls.lookup(mname)
        fi = r[2]
        if fi.is_generator:
            return GeneratorCall(fi, [recv, obj] + rest, kwargs, vcls)
        return eng.call_function(fi, [recv, obj] + rest, kwargs, self_cls=vcls, node=node)

    if len(opts) == 1:
        return do(opts[0][1])
    if merge:
        vals = []
        for cond, mname in opts:
            run.cond_stack.append(cond)
            try:
                vals.append((cond, do(mname)))
            finally:
                run.cond_stack.pop()
        res = vals[-1][1]
        for cond, v in reversed(vals[:-1]):
            res = eng.ite(cond, v, res)
        return res
    k = run.choose(len(opts), [c for c, _ in opts], "visit-dispatch")
    run.assume(opts[k][0])
    return do(opts[k][1])


def builtin_method(eng, recv, name, args, kwargs, node, frame):
    run = eng.run
    from .symexec import SeqView, PathEnd
    if isinstance(recv, TupleVal):
        recv = eng.to_tv(recv)
    if isinstance(recv, SeqView):
        raise _U(f"method {name} on view")
    if recv.sort == "str":
        return str_method(eng, recv, name, args, kwargs, node, frame)
    if recv.sort in ("int", "bool", "real"):
        if name == "is_integer":
            return tv_bool(z3.IsInt(recv.as_real()))
        raise _U(f"method {name} on number")
    fr = run.fresh_of(recv.t)
    t = recv.t
    if fr is None and name in ("is_integer", "count", "zfill", "rfind", "startswith", "endswith", "join", "format", "split"):
        if run._entails(S.is_VReal(t)):
            return builtin_method(eng, TV(S.rv(t), "real"), name, args, kwargs, node, frame)
        if run._entails(S.is_VStr(t)):
            return builtin_method(eng, TV(S.sv(t), "str"), name, args, kwargs, node, frame)
        if run._entails(S.is_VInt(t)):
            return builtin_method(eng, TV(S.iv(t), "int"), name, args, kwargs, node, frame)
    mutators = {"append", "extend", "insert", "pop", "remove", "clear", "sort", "reverse", "update", "setdefault", "popitem",
                "add", "discard", "appendleft", "popleft", "__setitem__"}
    if name in mutators:
        run.stores_checked += 1
    if fr is None:
        if name in mutators:
            if run.container_allowed(t):
                return world_mutation(eng, recv, name, args, kwargs, node, frame)
            run.obligation("frame", z3.BoolVal(False), node, note=f".{name}() on a container that is neither fresh nor in modifies")
            raise PathEnd()
        return world_container_method(eng, recv, name, args, kwargs, node, frame)
    if fr.frozen and name in mutators:
        raise _U(f"mutation .{name} of a frozen fresh container")
    k = fr.kind
    if k in ("list", "deque"):
        if name == "append":
            fr.arr = z3.Store(fr.arr, fr.length, eng.to_tv(args[0]).val())
            fr.length = fr.length + 1
            return TV_NONE
        if name == "extend":
            list_extend(eng, fr, seq_view(eng, args[0]))
            return TV_NONE
        if name == "appendleft":
            old = fr.arr
            kk = z3.Int(run.fresh_name("alk"))
            na = z3.Const(run.fresh_name("alarr"), z3.ArraySort(z3.IntSort(), S.Val))
            v = eng.to_tv(args[0]).val()
            ln = z3.simplify(fr.length)
            if z3.is_int_value(ln):
                na2 = z3.Store(z3.K(z3.IntSort(), S.VNone), 0, v)
                for i in range(ln.as_long()):
                    na2 = z3.Store(na2, i + 1, z3.simplify(z3.Select(old, i)))
                fr.arr = na2
            else:
                run.assume(z3.ForAll([kk], z3.Select(na, kk) == z3.If(kk == 0, v, z3.Select(old, kk - 1)), patterns=[z3.Select(na, kk)]))
                fr.arr = na
            fr.length = fr.length + 1
            return TV_NONE
        if name == "pop":
            if args:
                raise _U("pop(i)")
            eng.implicit_raise(fr.length <= 0, "IndexError", node, "pop from empty list")
            v = z3.Select(fr.arr, fr.length - 1)
            fr.length = fr.length - 1
            return tv_val(z3.simplify(v))
        if name == "copy":
            return eng.materialise_seq(seq_view(eng, recv), "list")
    if k == "dict":
        if name == "get":
            kv = key_norm(eng, args[0])
            dflt = eng.to_tv(args[1]).val() if len(args) > 1 else S.VNone
            return tv_val(z3.If(z3.Select(fr.has, kv), z3.Select(fr.get, kv), dflt))
        if name in ("values", "keys", "items"):
            return dict_view(eng, recv, name)
        if name == "update":
            dict_update(eng, fr, args[0])
            return TV_NONE
        if name == "copy":
            nf = new_dict(eng)
            nf.length, nf.arr, nf.has, nf.get = fr.length, fr.arr, fr.has, fr.get
            return TV(nf.term)
        if name == "pop":
            kv = key_norm(eng, args[0])
            had = z3.Select(fr.has, kv)
            if len(args) > 1:
                res = z3.If(had, z3.Select(fr.get, kv), eng.to_tv(args[1]).val())
            else:
                eng.implicit_raise(z3.Not(had), "KeyError", node, "dict.pop")
                res = z3.Select(fr.get, kv)
            fr.has = z3.Store(fr.has, kv, z3.BoolVal(False))
            fr.length = z3.If(had, fr.length - 1, fr.length)
            fr.arr = z3.Const(run.fresh_name("pkeys"), z3.ArraySort(z3.IntSort(), S.Val))
            return tv_val(res)
    if k == "set":
        if name == "add":
            set_add(eng, fr, args[0])
            return TV_NONE
    if k == "tuple" and name in ("index", "count"):
        raise _U("tuple method")
    raise _U(f"method {name} on fresh {k}")


def dict_view(eng, recv, name):
    from .symexec import SeqView
    dv = DictView(eng, recv)
    n = dv.nkeys()
    sn = z3.simplify(n)
    if name == "keys":
        nth = lambda i: tv_val(dv.key_at(i))
    elif name == "values":
        nth = lambda i: tv_val(dv.val_at(i))
    else:
        nth = lambda i: TupleVal([tv_val(dv.key_at(i)), tv_val(dv.val_at(i))])
    conc = None
    if z3.is_int_value(sn) and sn.as_long() <= 16:
        conc = [_simp(nth(z3.IntVal(k))) for k in range(sn.as_long())]
    return SeqView(n, nth, concrete=conc)


def _simp(v):
    if isinstance(v, TupleVal):
        return TupleVal([_simp(x) for x in v.items], v.kind)
    if isinstance(v, TV):
        return tv_val(z3.simplify(v.val())) if v.sort == "val" else TV(z3.simplify(v.t), v.sort)
    return v


def world_container_method(eng, recv, name, args, kwargs, node, frame):
    """Non-mutating methods on containers of the frozen world."""
    run = eng.run
    t = recv.t
    if name in ("values", "keys", "items"):
        return dict_view(eng, recv, name)
    if name == "get":
        kv = key_norm(eng, args[0])
        dflt = eng.to_tv(args[1]).val() if len(args) > 1 else S.VNone
        return tv_val(z3.If(S.dict_has(t, kv), S.dict_get(t, kv), dflt))
    if name == "copy":
        if run.marked_dict(t):
            nf = new_dict(eng)
            dict_update(eng, nf, recv)
            return TV(nf.term)
        return eng.materialise_seq(seq_view(eng, recv), "list")
    if name == "count" or name == "index":
        raise _U(f"world container method {name}")
    raise _U(f"method {name} on a value of unknown class")


def world_mutation(eng, recv, name, args, kwargs, node, frame):
    """Mutation of a frozen-world list listed in modifies (visitor state such as self.address)."""
    run = eng.run
    st = run.world_list_state(recv.t)
    if name == "append":
        st["arr"] = z3.Store(st["arr"], st["len"], eng.to_tv(args[0]).val())
        st["len"] = st["len"] + 1
        return TV_NONE
    if name == "pop" and not args:
        eng.implicit_raise(st["len"] <= 0, "IndexError", node, "pop from empty list")
        v = z3.Select(st["arr"], st["len"] - 1)
        st["len"] = st["len"] - 1
        return tv_val(v)
    raise _U(f"world mutation {name}")


def str_method(eng, recv, name, args, kwargs, node, frame):
    run = eng.run
    s = recv.t
    if name == "count":
        sub = eng.to_tv(args[0]).as_str()
        r = z3.Int(run.fresh_name("strcount"))
        run.assume(r >= 0)
        run.assume(z3.Implies(z3.Not(z3.Contains(s, sub)), r == 0))
        run.assume(z3.Implies(z3.Contains(s, sub), r >= 1))
        return tv_int(r)
    if name == "zfill":
        w = eng.to_tv(args[0]).as_int()
        r = z3.String(run.fresh_name("zfilled"))
        run.assume(r == STR_ZFILL(s, w))
        run.zfill_terms.append((s, w, r))
        run.assume(z3.Length(r) == z3.If(w > z3.Length(s), w, z3.Length(s)))
        return tv_str(r)
    if name == "rfind":
        sub = eng.to_tv(args[0]).as_str()
        lo = eng.to_tv(args[1]).as_int() if len(args) > 1 else z3.IntVal(0)
        hi = eng.to_tv(args[2]).as_int() if len(args) > 2 else z3.Length(s)
        # python clamps; LastIndexOf on the substring
        hi2 = z3.If(hi > z3.Length(s), z3.Length(s), z3.If(hi < 0, 0, hi))
        lo2 = z3.If(lo < 0, 0, lo)
        sub_s = z3.SubString(s, lo2, z3.If(hi2 > lo2, hi2 - lo2, 0))
        li = z3.LastIndexOf(sub_s, sub)
        return tv_int(z3.If(li < 0, -1, li + lo2))
    if name == "startswith":
        a = args[0]
        if isinstance(a, TupleVal):
            return tv_bool(z3.Or([z3.PrefixOf(eng.to_tv(x).as_str(), s) for x in a.items]))
        return tv_bool(z3.PrefixOf(eng.to_tv(a).as_str(), s))
    if name == "endswith":
        return tv_bool(z3.SuffixOf(eng.to_tv(args[0]).as_str(), s))
    if name == "join":
        view = seq_view(eng, args[0])
        if view.concrete is not None:
            parts = []
            for k, it in enumerate(view.concrete):
                if k:
                    parts.append(s)
                parts.append(eng.to_tv(it).as_str())
            if not parts:
                return tv_str("")
            return tv_str(z3.Concat(*parts) if len(parts) > 1 else parts[0])
        r = z3.String(run.fresh_name("joined"))
        return tv_str(r)
    if name == "format":
        fmt = z3.simplify(s)
        if z3.is_string_value(fmt) and fmt.as_string().count("{}") == len(args) and not kwargs:
            parts = fmt.as_string().split("{}")
            out = []
            for p, a in zip(parts, args):
                if p:
                    out.append(z3.StringVal(p))
                out.append(str_of(eng, a, frame))
            if parts[-1]:
                out.append(z3.StringVal(parts[-1]))
            return tv_str(z3.Concat(*out) if len(out) > 1 else out[0])
        return tv_str(z3.String(run.fresh_name("fmt")))
    if name == "split":
        raise _U("str.split")
    raise _U(f"str method {name}")


STR_ZFILL = z3.Function("str_zfill", z3.StringSort(), z3.IntSort(), z3.StringSort())


# ======================================================================== builtin functions
def call_builtin(eng, name, args, kwargs, node, frame):
    run = eng.run
    from .symexec import SeqView
    if name.startswith("dsl."):
        return call_dsl(eng, name[4:], args, kwargs, node, frame)
    if name == "len":
        a0 = args[0]
        if isinstance(a0, TV) and a0.sort == "val":
            ws = run.world_dict_state(a0.t)
            if ws is not None:
                return tv_int(ws["len"])
        return tv_int(length_of(eng, args[0], node, frame))
    if name == "isinstance":
        v = args[0]
        classes = args[1].items if isinstance(args[1], TupleVal) else [args[1]]
        cl = []
        for c in classes:
            if isinstance(c, ClassRef):
                cl.append(c.cls)
            elif isinstance(c, BuiltinRef) and c.name in eng.ct.ext:
                cl.append(eng.ct.ext[c.name])
            else:
                raise _U(f"isinstance with {c}")
        if isinstance(v, PyObj):
            if isinstance(v, TupleVal):
                return tv_bool(any(c.name in (v.kind, "object") for c in cl))
            if isinstance(v, SeqView):
                return tv_bool(False)
            if isinstance(v, BuiltinRef) and v.name == "all":
                return tv_bool(False)
            if isinstance(v, (Closure, FuncRef)):
                return tv_bool(any(c.name in ("function", "object") for c in cl))
            raise _U(f"isinstance of {v}")
        v = eng.to_tv(v)
        sc = eng.static_class(v)
        if sc is not None:
            return tv_bool(any(sc.is_subclass_of(c) for c in cl))
        return tv_bool(eng.isinstance_expr(v.val(), cl))
    if name == "hasattr":
        return tv_bool(hasattr_expr(eng, args[0], args[1], node, frame))
    if name == "getattr":
        an = z3.simplify(eng.to_tv(args[1]).as_str())
        if z3.is_string_value(an):
            return eng.get_attr(args[0], an.as_string(), node, frame)
        raise _U("getattr with non-constant name")
    if name == "int":
        return to_int(eng, args, node, frame)
    if name == "float":
        return to_float(eng, args[0], node, frame)
    if name == "bool":
        return tv_bool(eng.truth_of(args[0])) if args else tv_bool(False)
    if name == "str":
        if not args:
            return tv_str("")
        return tv_str(str_of(eng, args[0], frame))
    if name == "repr":
        v = eng.to_tv(args[0])
        if v.sort in ("int", "real", "bool"):
            return tv_str(str_of(eng, v, frame))
        return tv_str(REPR_OF_VAL(v.val()))
    if name == "abs":
        v = eng.to_tv(args[0])
        if v.sort in ("int", "bool"):
            return tv_int(z3.If(v.as_int() >= 0, v.as_int(), -v.as_int()))
        r = v.as_real()
        return tv_real(z3.If(r >= 0, r, -r))
    if name in ("max", "min"):
        items = args if len(args) > 1 else eng.iter_concrete(args[0])
        items = [eng.to_tv(i) for i in items]
        realmode = any(_maybe_real(eng, i) for i in items)
        acc = items[0].as_real() if realmode else items[0].as_int()
        for i in items[1:]:
            x = i.as_real() if realmode else i.as_int()
            acc = z3.If(x > acc, x, acc) if name == "max" else z3.If(x < acc, x, acc)
        return tv_real(acc) if realmode else tv_int(acc)
    if name == "range":
        return make_range(eng, args, node)
    if name == "enumerate":
        view = seq_view(eng, args[0])
        conc = [TupleVal([tv_int(k), it]) for k, it in enumerate(view.concrete)] if view.concrete is not None else None
        return SeqView(view.length, lambda i: TupleVal([tv_int(i), view.nth(i)]), concrete=conc)
    if name == "zip":
        views = [seq_view(eng, a) for a in args]
        ln = views[0].length
        for v in views[1:]:
            ln = z3.If(v.length < ln, v.length, ln)
        conc = None
        if all(v.concrete is not None for v in views):
            conc = [TupleVal(list(t)) for t in zip(*[v.concrete for v in views])]
        return SeqView(ln, lambda i: TupleVal([v.nth(i) for v in views]), concrete=conc)
    if name in ("itertools.zip_longest", "zip_longest"):
        views = [seq_view(eng, a) for a in args]
        ln = views[0].length
        for v in views[1:]:
            ln = z3.If(v.length > ln, v.length, ln)
        return SeqView(ln, lambda i: TupleVal([eng.ite(i < v.length, v.nth(i), TV_NONE) for v in views]))
    if name in ("all", "any"):
        view = seq_view(eng, args[0])
        if view.concrete is not None:
            cs = [eng.truth_of(x) for x in view.concrete]
            if name == "all":
                return tv_bool(z3.And(cs) if cs else z3.BoolVal(True))
            return tv_bool(z3.Or(cs) if cs else z3.BoolVal(False))
        k = z3.Int(run.fresh_name("qk"))
        body = eng.truth_of(view.nth(k))
        rng = z3.And(0 <= k, k < view.length)
        if name == "all":
            return tv_bool(z3.ForAll([k], z3.Implies(rng, body)))
        return tv_bool(z3.Exists([k], z3.And(rng, body)))
    if name == "sum":
        from .symexec import SeqView
        if isinstance(args[0], SeqView) and args[0].concrete is None and len(args) == 1:
            # symbolic number of summands: the sum is an unknown integer (bounded by the count when the
            # summands are booleans) - an over-approximation, sound for proofs; models are replayed anyway
            view = args[0]
            k = z3.Int(run.fresh_name("sk"))
            e = eng.to_tv(view.nth(k))
            sort = e.sort
            if sort == "val":
                ev = z3.simplify(e.val())
                if z3.is_true(z3.simplify(S.is_VBool(ev))):
                    sort = "bool"
                elif z3.is_true(z3.simplify(S.is_VInt(ev))):
                    sort = "int"
                else:
                    run.cond_stack.append(z3.And(0 <= k, k < view.length))
                    try:
                        if run._entails(S.is_VBool(ev)):
                            sort = "bool"
                        elif run._entails(z3.Or(S.is_VBool(ev), S.is_VInt(ev))):
                            sort = "int"
                    finally:
                        run.cond_stack.pop()
            if sort not in ("bool", "int"):
                raise _U(f"sum over a symbolic sequence of non-integers: {e.sort} {z3.simplify(e.val()).sexpr()[:300]}")
            sm = z3.Int(run.fresh_name("sum"))
            if sort == "bool":
                run.assume(z3.And(sm >= 0, sm <= view.length))
            run.assumptions_used.add("sum() over a sequence of unknown length is an unconstrained integer (0..len for booleans)")
            return tv_int(sm)
        items = eng.iter_concrete(args[0])
        acc = tv_int(0)
        for it in items:
            acc = binop(eng, ast.Add(), acc, it, node, frame)
        return acc
    if name in ("list", "tuple", "dict", "set", "slice", "frozenset"):
        return instantiate(eng, eng.ct.ext[name], args, kwargs, node, frame)
    if name == "iter":
        return IterObj(seq_view(eng, args[0]))
    if name == "next":
        it = args[0]
        if isinstance(it, IterObj):
            eng.implicit_raise(it.pos >= it.view.length, "StopIteration", node, "next")
            v = it.view.nth(it.pos)
            it.pos = it.pos + 1
            return v
        if isinstance(it, TV) and it.sort == "val":
            # an iterator object of the frozen world: fields @it_seq (the underlying sequence) and @it_pos
            seq = eng.read_field(it, "@it_seq")
            pos = eng.read_field(it, "@it_pos")
            ln = S.seq_len(seq.val())
            eng.run.assume(ln >= 0)
            p_ = S.simp_iv(pos.val())
            eng.implicit_raise(z3.Not(z3.And(0 <= p_, p_ < ln)), "StopIteration", node, "next() on an exhausted iterator")
            v = tv_val(S.seq_nth(seq.val(), p_))
            eng.set_attr(it, "@it_pos", tv_int(p_ + 1), node, frame)
            return v
        raise _U("next on non-iterator")
    if name == "type":
        v = eng.to_tv(args[0])
        sc = eng.static_class(v)
        if sc is not None:
            return ClassRef(sc)
        raise _U("type() of value with unknown class")
    if name == "super":
        raise _U("bare super()")
    if name == "print":
        return TV_NONE
    if name == "callable":
        v = args[0]
        if isinstance(v, PyObj):
            return tv_bool(isinstance(v, (Closure, FuncRef, BoundMethod, ClassRef, BuiltinRef)))
        raise _U("callable()")
    if name == "filter":
        raise _U("filter")
    if name == "math.isnan":
        return tv_bool(False)   # reals have no NaN (assumption listed)
    if name in ("collections.OrderedDict", "collections.defaultdict", "collections.deque"):
        return instantiate(eng, eng.ct.ext[name.split(".")[1]], args, kwargs, node, frame)
    if name == "itertools.chain.from_iterable" or name == "chain.from_iterable":
        return chain_from_iterable(eng, args[0], node, frame)
    if name == "hash" and len(args) == 1 and not kwargs:
        # hash(x): some integer determined by x (nothing else is assumed about it - in particular not injectivity);
        # tuples of values are hashed through their concrete components' terms
        a0 = args[0]
        if isinstance(a0, TupleVal):
            comps = [eng.to_tv(x).val() if isinstance(x, TV) or not isinstance(x, PyObj) else None for x in a0.items]
            if all(c_ is not None for c_ in comps):
                hf = z3.Function(f"py_hash_tuple{len(comps)}", *([S.Val] * len(comps) + [z3.IntSort()]))
                return tv_int(hf(*comps))
            return tv_int(z3.Int(run.fresh_name("hash")))
        return tv_int(z3.Function("py_hash", S.Val, z3.IntSort())(eng.to_tv(a0).val()))
    if name == "sorted":
        raise _U("sorted")
    if name == "setattr":
        an = z3.simplify(eng.to_tv(args[1]).as_str())
        if z3.is_string_value(an):
            eng.set_attr(eng.to_tv(args[0]), an.as_string(), args[2], node, frame)
            return TV_NONE
        raise _U("setattr with symbolic name")
    if name.startswith("numpy.") or name.startswith("warnings.") or name.startswith("os."):
        raise _U(f"external call {name}")
    raise _U(f"builtin {name}")


class IterObj(PyObj):
    def __init__(self, view):
        self.view = view
        self.pos = z3.IntVal(0)


def chain_from_iterable(eng, src, node, frame):
    outer = seq_view(eng, src)
    if outer.concrete is None:
        raise _U("chain.from_iterable over symbolic-length outer sequence")
    fr = new_list(eng)
    for it in outer.concrete:
        list_extend(eng, fr, seq_view(eng, it))
    return seq_view(eng, TV(fr.term))


def make_range(eng, args, node):
    from .symexec import SeqView
    a = [eng.to_tv(x) for x in args]
    for x in a:
        if x.sort == "val":
            eng.implicit_raise(z3.Not(S.is_intlike(x.t)), "TypeError", node, "range() argument")
    if len(a) == 1:
        lo, hi, st = z3.IntVal(0), a[0].as_int(), z3.IntVal(1)
    elif len(a) == 2:
        lo, hi, st = a[0].as_int(), a[1].as_int(), z3.IntVal(1)
    else:
        lo, hi, st = a[0].as_int(), a[1].as_int(), a[2].as_int()
        eng.implicit_raise(st == 0, "ValueError", node, "range() step zero")
    n = range_len_term(eng, lo, hi, st)
    sn = z3.simplify(n)
    conc = None
    if z3.is_int_value(sn) and sn.as_long() <= 16 and z3.is_int_value(z3.simplify(lo)) and z3.is_int_value(z3.simplify(st)):
        l0, s0 = z3.simplify(lo).as_long(), z3.simplify(st).as_long()
        conc = [tv_int(l0 + k * s0) for k in range(sn.as_long())]
    return SeqView(n, lambda i: tv_int(lo + i * st), concrete=conc)


def range_len_exact(lo, hi, st):
    pos = z3.If(hi > lo, (hi - lo + st - 1) / st, 0)
    neg = z3.If(hi < lo, (lo - hi + (-st) - 1) / (-st), 0)
    return z3.If(st > 0, pos, neg)


def range_len_term(eng, lo, hi, st):
    """len(range(lo, hi, st)): exact for literal steps, otherwise the uninterpreted RANGE_LEN with
    its sign facts (builtin model, cross-checked against CPython on a grid)."""
    st1 = z3.simplify(st)
    if z3.is_int_value(st1) and st1.as_long() == 1:
        return z3.If(hi > lo, hi - lo, 0)
    if z3.is_int_value(st1) and st1.as_long() != 0:
        return range_len_exact(lo, hi, st1)
    t = RANGE_LEN(lo, hi, st)
    run = eng.run
    run.assume(t >= 0)
    run.assume(z3.Implies(st == 1, t == z3.If(hi > lo, hi - lo, 0)))
    run.assume(z3.Implies(z3.And(st > 0, hi <= lo), t == 0))
    run.assume(z3.Implies(z3.And(st > 0, hi > lo), t >= 1))
    return t


def range_len(lo, hi, st):
    return range_len_exact(lo, hi, st)


def length_of(eng, v, node, frame):
    run = eng.run
    from .symexec import SeqView
    if isinstance(v, TupleVal):
        return z3.IntVal(len(v.items))
    if isinstance(v, SeqView):
        return v.length
    v = eng.to_tv(v)
    if v.sort == "str":
        return z3.Length(v.t)
    if v.sort != "val":
        eng.implicit_raise(z3.BoolVal(True), "TypeError", node, "len() of number")
        return eng.dead_value()
    fr = run.fresh_of(v.t)
    if fr is not None:
        if fr.kind in ("list", "tuple", "deque", "dict"):
            return fr.length
        if fr.kind == "obj":
            return call_dunder(eng, v, fr.cls, "__len__", [], node, frame).as_int()
        raise _U("len of set")
    sc = eng.static_class(v)
    if sc is not None and isinstance(sc, ClassInfo):
        return call_dunder(eng, v, sc, "__len__", [], node, frame).as_int()
    t = v.t
    # unknown: repo classes with __len__ / containers
    groups = {}
    for c in eng.ct.all_classes():
        r = c.lookup("__len__")
        if r and r[0] == "method":
            groups.setdefault(id(r[2]), (r[2], []))[1].append(c)
    res = None
    conds = []
    st = run.world_lists.get(t.get_id())
    if st is not None:
        return st["len"]
    cont = eng.isinstance_expr(t, [eng.ct.ext[n] for n in ("list", "tuple", "dict", "deque", "set", "str")])
    clen = eng._container_len(t)
    run.assume(clen >= 0)
    res = clen
    conds.append(z3.Or(cont, S.is_VStr(t)))
    res = z3.If(S.is_VStr(t), z3.Length(S.sv(t)), res)
    in_spec = isinstance(frame_module(frame), tuple) if frame is not None else False
    for fi, classes in groups.values():
        if in_spec or run.prop_depth >= 3:
            break       # specifications take len() of data containers only
        cond = eng.isinstance_exact(t, classes)
        if run.quick_feasible(cond):
            run.merge_depth += 1
            run.prop_depth += 1
            run.cond_stack.append(cond)
            try:
                val = eng.to_tv(eng.call_function(fi, [v], {}, self_cls=classes[0], node=node)).as_int()
            finally:
                run.cond_stack.pop()
                run.merge_depth -= 1
                run.prop_depth -= 1
            res = z3.If(cond, val, res)
            conds.append(cond)
    eng.implicit_raise(z3.Not(z3.Or(conds)), "TypeError", node, "len() of unsized object")
    return res


def hasattr_expr(eng, v, name, node, frame):
    an = z3.simplify(eng.to_tv(name).as_str())
    if not z3.is_string_value(an):
        raise _U("hasattr with symbolic name")
    attr = an.as_string()
    if isinstance(v, PyObj):
        if isinstance(v, FuncAttrHolder := (Closure, FuncRef)):
            return eng.run.func_attr_has(v, attr)
        raise _U("hasattr on python-side value")
    v = eng.to_tv(v)
    sc = eng.static_class(v)
    if sc is not None:
        if isinstance(sc, ClassInfo):
            fr = eng.run.fresh_of(v.t)
            if sc.lookup(attr) is not None:
                return z3.BoolVal(True)
            if fr is not None:
                return z3.BoolVal(attr in fr.fields)
            return z3.BoolVal(attr in eng.class_fields(sc))
        return z3.BoolVal(sc.lookup(attr) is not None)
    conds = []
    for c in eng.ct.all_classes():
        if c.lookup(attr) is not None or attr in eng.class_fields(c):
            conds.append(c)
    ext = [c for c in eng.ct.ext.values() if attr in c.attrs]
    parts = []
    if conds:
        parts.append(eng.isinstance_exact(v.val(), conds))
    if ext:
        parts.append(eng.isinstance_expr(v.val(), ext))
    return z3.Or(parts) if parts else z3.BoolVal(False)


INT_OF_STR = z3.Function("int_of_str", z3.StringSort(), z3.IntSort())
TRUNC = z3.Function("trunc_real", z3.RealSort(), z3.IntSort())


def real_trunc(eng, r):
    """int(float): truncation toward zero."""
    fl = z3.ToInt(r)
    return z3.If(r >= 0, fl, z3.If(z3.ToReal(fl) == r, fl, fl + 1))


def to_int(eng, args, node, frame):
    run = eng.run
    if not args:
        return tv_int(0)
    v = args[0]
    if len(args) > 1 or any(k == "base" for k in []):
        s = eng.to_tv(v).as_str()
        b = eng.to_tv(args[1])
        if b.is_concrete_int() and b.concrete_int() == 2:
            r = BIN_VALUE(s)
            run.binval_terms.append((s, r))
            eng.implicit_raise(z3.Not(z3.InRe(s, z3.Plus(z3.Union(z3.Re("0"), z3.Re("1"))))), "ValueError", node, "int(s,2) of a non-binary string")
            run.assume(r >= 0)
            return tv_int(r)
        raise _U("int(x, base)")
    if isinstance(v, PyObj):
        raise _U("int() of python-side value")
    v = eng.to_tv(v)
    if v.sort in ("int", "bool"):
        return tv_int(v.as_int())
    if v.sort == "real":
        return tv_int(real_trunc(eng, v.t))
    if v.sort == "str":
        eng.implicit_raise(z3.Not(z3.InRe(v.t, z3.Concat(z3.Option(z3.Union(z3.Re("-"), z3.Re("+"))), z3.Plus(z3.Range("0", "9"))))), "ValueError", node, "int(str)")
        return tv_int(INT_OF_STR(v.t))
    sc = eng.static_class(v)
    if sc is not None and isinstance(sc, ClassInfo):
        r = sc.lookup("__int__")
        if r and r[0] == "method":
            return eng.call_function(r[2], [v], {}, self_cls=sc, node=node)
        eng.implicit_raise(z3.BoolVal(True), "TypeError", node, "int() of object")
        return eng.dead_value()
    t = v.t
    # unknown Val: numbers, strings, objects with __int__
    groups = {}
    for c in eng.ct.all_classes():
        r = c.lookup("__int__")
        if r and r[0] == "method":
            groups.setdefault(id(r[2]), (r[2], []))[1].append(c)
    objc = []
    for fi, classes in groups.values():
        cond = eng.isinstance_exact(t, classes)
        if run.quick_feasible(cond):
            objc.append((cond, fi, classes))
    isnum = S.is_numeric(t)
    isstr = S.is_VStr(t)
    bad = z3.Not(z3.Or([isnum, isstr] + [c for c, _, _ in objc]))
    eng.implicit_raise(bad, "TypeError", node, "int() argument")
    if run.quick_feasible(isstr):
        if eng.branch(isstr, "int-of-str"):
            return to_int(eng, [tv_str(S.sv(t))], node, frame)
    if objc:
        merge = run.merge_depth or run.merge_only
        if merge:
            raise _U("int() dispatch in merge mode")
        for cond, fi, classes in objc:
            if eng.branch(cond, "int-dispatch"):
                return eng.call_function(fi, [v], {}, self_cls=classes[0], node=node)
    return tv_int(z3.If(S.is_VReal(t), real_trunc(eng, S.rv(t)), S.simp_iv(t)))


BIN_VALUE = z3.Function("bin_value", z3.StringSort(), z3.IntSort())
REAL_OF_STR = z3.Function("real_of_str", z3.StringSort(), z3.RealSort())


def to_float(eng, v, node, frame):
    run = eng.run
    v = eng.to_tv(v)
    if v.sort in ("int", "bool", "real"):
        return tv_real(v.as_real())
    if v.sort == "str":
        return tv_real(REAL_OF_STR(v.t))
    sc = eng.static_class(v)
    if sc is not None and isinstance(sc, ClassInfo):
        r = sc.lookup("__float__")
        if r and r[0] == "method":
            return eng.call_function(r[2], [v], {}, self_cls=sc, node=node)
        eng.implicit_raise(z3.BoolVal(True), "TypeError", node, "float() of object")
        return eng.dead_value()
    t = v.t
    eng.implicit_raise(z3.Not(z3.Or(S.is_numeric(t), S.is_VStr(t))), "TypeError", node, "float() argument")
    return tv_real(z3.If(S.is_VStr(t), REAL_OF_STR(S.sv(t)), S.real_of(t)))


# ======================================================================== contract helpers
def call_dsl(eng, name, args, kwargs, node, frame):
    run = eng.run
    a = [x if isinstance(x, PyObj) else eng.to_tv(x) for x in args]
    if name == "is_int":
        v = a[0]
        if v.sort != "val":
            return tv_bool(v.sort == "int")
        return tv_bool(S.is_VInt(v.t))
    if name == "is_bool":
        v = a[0]
        return tv_bool(v.sort == "bool") if v.sort != "val" else tv_bool(S.is_VBool(v.t))
    if name == "is_intlike":
        v = a[0]
        return tv_bool(v.sort in ("int", "bool")) if v.sort != "val" else tv_bool(S.is_intlike(v.t))
    if name == "is_float":
        v = a[0]
        return tv_bool(v.sort == "real") if v.sort != "val" else tv_bool(S.is_VReal(v.t))
    if name == "is_num":
        v = a[0]
        return tv_bool(v.sort in ("int", "bool", "real")) if v.sort != "val" else tv_bool(S.is_numeric(v.t))
    if name == "is_str":
        v = a[0]
        return tv_bool(v.sort == "str") if v.sort != "val" else tv_bool(S.is_VStr(v.t))
    if name == "is_none":
        v = a[0]
        return tv_bool(False) if v.sort != "val" else tv_bool(v.t == S.VNone)
    if name == "iff":
        return tv_bool(eng.truth_of(a[0]) == eng.truth_of(a[1]))
    if name == "type_is":
        v, c = a
        return tv_bool(eng.isinstance_exact(v.val(), [c.cls]))
    if name == "pow2":
        return tv_int(pow2_term(eng, a[0].as_int()))
    if name == "bit":
        run.uses_bits = True
        return tv_bool(TESTBIT(a[0].as_int(), a[1].as_int()))
    if name == "same":
        x, y = (eng.to_tv(v) if isinstance(v, PyObj) else v for v in a)
        if x.sort != "val" and y.sort != "val":
            if x.sort != y.sort:
                return tv_bool(False)
            return tv_bool(x.t == y.t)
        return tv_bool(x.val() == y.val())
    if name == "fresh":
        v = a[0]
        return tv_bool(z3.And(S.is_VObj(v.val()), S.oid(v.val()) >= S.ALLOC0))
    if name == "has_key":
        d, k = a
        return tv_bool(DictView(eng, d).has(key_norm(eng, k)))
    if name == "dict_lookup":
        d, k = a
        return tv_val(DictView(eng, d).get(key_norm(eng, k)))
    if name == "dict_len":
        return tv_int(DictView(eng, a[0]).nkeys())
    if name == "dict_key_at":
        return tv_val(DictView(eng, a[0]).key_at(a[1].as_int()))
    if name == "dict_val_at":
        return tv_val(DictView(eng, a[0]).val_at(a[1].as_int()))
    if name == "range_len":
        return tv_int(range_len_term(eng, a[0].as_int(), a[1].as_int(), a[2].as_int()))
    if name == "singleton":
        st, x = a
        member = set_view(eng, st)
        y = z3.Const(run.fresh_name("sy"), S.Val)
        return tv_bool(z3.ForAll([y], member(y) == (y == x.val())))
    if name == "iter_pos":
        return tv_int(S.simp_iv(eng.read_field(a[0], "@it_pos").val()))
    if name == "iter_seq":
        return eng.read_field(a[0], "@it_seq")
    if name == "is_iterator":
        return tv_bool(z3.And(S.is_VObj(a[0].val()), S.is_VInt(eng.read_field(a[0], "@it_pos").val())))
    if name == "str_len":
        return tv_int(z3.Length(a[0].as_str()))
    raise _U(f"dsl helper {name}")


def dsl_lazy(eng, name, node, frame):
    run = eng.run
    from .symexec import Frame
    if name == "old":
        # names inside old(...) denote the values of the parameters at function entry
        oframe = Frame(dict(run.root_bindings), parent=frame) if run.root_bindings else frame
        if run.old_state is None:
            return eng.eval(node.args[0], oframe)
        saved = (run.overlay, run.overlay_terms, run.fresh, run.world_lists)
        st = run.old_state
        run.overlay, run.overlay_terms, run.fresh = st["overlay"], st["overlay_terms"], st["fresh"]
        run.world_lists = st.get("world_lists", run.world_lists)
        try:
            return eng.eval(node.args[0], oframe)
        finally:
            run.overlay, run.overlay_terms, run.fresh, run.world_lists = saved
    if name == "implies":
        a = eng.truth_of(eng.eval(node.args[0], frame))
        run.cond_stack.append(a)
        try:
            b = eng.truth_of(eng.eval(node.args[1], frame))
        finally:
            run.cond_stack.pop()
        return tv_bool(z3.Implies(a, b))
    if name in ("forall_range", "exists_range"):
        n = eng.to_tv(eng.eval(node.args[0], frame)).as_int()
        lam = node.args[1]
        if not isinstance(lam, ast.Lambda) or len(lam.args.args) != 1:
            raise _U(f"{name} needs a one-parameter lambda")
        sn = z3.simplify(n)
        if z3.is_int_value(sn) and sn.as_long() <= 6:
            cs = []
            for i in range(sn.as_long()):
                f2 = Frame({lam.args.args[0].arg: tv_int(i)}, parent=frame)
                cs.append(eng.truth_of(eng.eval(lam.body, f2)))
            if name == "forall_range":
                return tv_bool(z3.And(cs) if cs else z3.BoolVal(True))
            return tv_bool(z3.Or(cs) if cs else z3.BoolVal(False))
        k = z3.Int(run.fresh_name("q_" + lam.args.args[0].arg))
        f2 = Frame({lam.args.args[0].arg: tv_int(k)}, parent=frame)
        rng = z3.And(0 <= k, k < n)
        run.cond_stack.append(rng)
        try:
            body = eng.truth_of(eng.eval(lam.body, f2))
        finally:
            run.cond_stack.pop()
        pats = _patterns_for(body, k)
        if name == "forall_range":
            if pats:
                try:
                    return tv_bool(z3.ForAll([k], z3.Implies(rng, body), patterns=pats))
                except z3.Z3Exception:
                    pass    # the candidate trigger contains an if-then-else: let z3 choose
            return tv_bool(z3.ForAll([k], z3.Implies(rng, body)))
        return tv_bool(z3.Exists([k], z3.And(rng, body)))
    if name == "forall_keys":
        d = eng.to_tv(eng.eval(node.args[0], frame))
        lam = node.args[1]
        dv = DictView(eng, d)
        x = z3.Const(run.fresh_name("q_key"), S.Val)
        f2 = Frame({lam.args.args[0].arg: tv_val(x)}, parent=frame)
        run.cond_stack.append(dv.has(x))
        try:
            body = eng.truth_of(eng.eval(lam.body, f2))
        finally:
            run.cond_stack.pop()
        pat = dv.get(x)
        if z3.is_app(pat) and pat.decl().kind() == z3.Z3_OP_SELECT and not z3.is_const(pat.arg(0)):
            return tv_bool(z3.ForAll([x], z3.Implies(dv.has(x), body)))       # a computed array is no valid trigger
        return tv_bool(_forall([x], z3.Implies(dv.has(x), body), [pat]))
    if name == "forall_in":
        seq = eng.eval(node.args[0], frame)
        lam = node.args[1]
        view = seq_view(eng, seq)
        if view.concrete is not None:
            cs = []
            for it in view.concrete:
                f2 = Frame({lam.args.args[0].arg: it}, parent=frame)
                cs.append(eng.truth_of(eng.eval(lam.body, f2)))
            return tv_bool(z3.And(cs) if cs else z3.BoolVal(True))
        k = z3.Int(run.fresh_name("q_in"))
        f2 = Frame({lam.args.args[0].arg: view.nth(k)}, parent=frame)
        rng = z3.And(0 <= k, k < view.length)
        run.cond_stack.append(rng)
        try:
            body = eng.truth_of(eng.eval(lam.body, f2))
        finally:
            run.cond_stack.pop()
        pats = _patterns_for(body, k)
        return tv_bool(_forall([k], z3.Implies(rng, body), pats))
    raise _U(name)


def _forall(vs, body, patterns=None):
    """ForAll with triggers; a trigger z3 rejects (it contains an if-then-else) is dropped, z3 then chooses its own."""
    if patterns:
        try:
            return z3.ForAll(vs, body, patterns=patterns)
        except z3.Z3Exception:
            pass
    return z3.ForAll(vs, body)


def _patterns_for(body, k):
    """Pick seq_nth(.., k) / Select(.., k) applications mentioning exactly the bound variable as triggers."""
    found = []
    seen = set()

    def walk(e):
        if e.get_id() in seen or len(found) >= 1:
            return
        seen.add(e.get_id())
        if z3.is_app(e):
            d = e.decl()
            if (d.name() in ("seq_nth",) or d.kind() == z3.Z3_OP_SELECT) and e.num_args() == 2 and e.arg(1).eq(k):
                if not _mentions(e.arg(0), k):
                    found.append(e)
                    return
            for c in e.children():
                walk(c)
        elif z3.is_quantifier(e):
            return

    walk(body)
    return found


def _mentions(e, k):
    seen = set()
    stack = [e]
    while stack:
        t = stack.pop()
        if t.get_id() in seen:
            continue
        seen.add(t.get_id())
        if t.eq(k):
            return True
        if z3.is_app(t):
            stack.extend(t.children())
        elif z3.is_quantifier(t):
            stack.append(t.body())
    return False


# ======================================================================== comprehensions
def comprehension(eng, node, frame, kind):
    """[elt for target in iter (if cond)] - single generator."""
    run = eng.run
    from .symexec import SeqView, Frame, PyRaise
    if len(node.generators) != 1:
        raise _U("nested comprehension generators")
    gen = node.generators[0]
    src = eng.eval(gen.iter, frame)
    view = seq_view(eng, src)
    if view.concrete is not None:
        items = []
        for it in view.concrete:
            f2 = Frame({}, parent=frame)
            f2.qualname = frame.qualname
            eng.assign_target(gen.target, it, f2)
            ok = True
            for c in gen.ifs:
                cv = eng.truth_of(eng.eval(c, f2))
                if run.merge_depth or run.merge_only:
                    raise _U("filtered comprehension in merge mode")
                if not eng.branch(cv, "comp-if"):
                    ok = False
                    break
            if ok:
                items.append(eng.eval(node.elt, f2))
        if kind == "gen":
            return SeqView(z3.IntVal(len(items)), lambda i, items=items: _concrete_nth(eng, items, i), concrete=items)
        return eng.to_tv(TupleVal(items, "list"))
    if gen.ifs:
        return filtered_comprehension(eng, node, frame, kind, view)
    # symbolic length: evaluate the element once for a symbolic index in merge mode
    k = z3.Int(run.fresh_name("ck"))
    rng = z3.And(0 <= k, k < view.length)
    f2 = Frame({}, parent=frame)
    f2.qualname = frame.qualname
    nfacts = len(run.facts)
    nraises = len(run.merge_raises)
    ncount = run.peek_counter()
    run.merge_depth += 1
    run.cond_stack.append(rng)
    run.skolem_stack.append(k)
    try:
        eng.assign_target(gen.target, view.nth(k), f2)
        elt = eng.eval(node.elt, f2)
    finally:
        run.skolem_stack.pop()
        run.cond_stack.pop()
        run.merge_depth -= 1
    new_facts = run.facts[nfacts:]
    del run.facts[nfacts:]
    raises = run.merge_raises[nraises:]
    del run.merge_raises[nraises:]
    elt_t = eng.to_tv(elt).val()
    # constants created during the element evaluation depend on k: skolemise as functions of k
    consts = _new_consts([elt_t] + new_facts, run, ncount)
    subst = []
    for c in consts:
        fn = z3.Function(c.decl().name() + "_f", z3.IntSort(), c.sort())
        subst.append((c, fn(k)))
    elt_k = z3.substitute(elt_t, *subst) if subst else elt_t
    facts_k = [z3.substitute(f, *subst) if subst else f for f in new_facts]
    # exceptional exit of some element
    if raises and (run.track_exc or run.try_depth) and not (run.merge_depth or run.merge_only):
        opts = [("normal", None, None)] + [("raise", c, e) for c, e in raises]
        conds = [z3.BoolVal(True)] + [z3.And(rng, c) if c is not None else rng for c, e in raises]
        ch = run.choose(len(opts), conds, "comp-raise")
        if ch > 0:
            _, c, e = opts[ch]
            run.assume(rng)
            for f in new_facts:
                run.assume(f)
            if c is not None:
                run.assume(c)
            raise PyRaise(eng.new_exception(e), e, where=(node.lineno, "comprehension element"))
        # normal: no element raised (iff-conditions are false for every k)
        for c, e in raises:
            if c is not None:
                ck = z3.substitute(c, *subst) if subst else c
                run.assume(z3.ForAll([k], z3.Implies(rng, z3.Not(ck))))
    arr = z3.Const(run.fresh_name("carr"), z3.ArraySort(z3.IntSort(), S.Val))
    body = z3.And([z3.Select(arr, k) == elt_k] + facts_k)
    run.assume(_forall([k], z3.Implies(rng, body), [z3.Select(arr, k)]))
    if kind == "gen":
        return SeqView(view.length, lambda i: tv_val(z3.Select(arr, i)))
    fr = run.alloc("list", eng.ct.ext["list"])
    fr.length = view.length
    fr.arr = arr
    return TV(fr.term)


def _new_consts(exprs, run, since):
    """Uninterpreted constants named <prefix>...!n with n >= since occurring in exprs."""
    out = {}
    seen = set()

    def walk(e):
        if e.get_id() in seen:
            return
        seen.add(e.get_id())
        if z3.is_quantifier(e):
            walk(e.body())
            return
        if z3.is_app(e):
            if e.num_args() == 0 and e.decl().kind() == z3.Z3_OP_UNINTERPRETED:
                nm = e.decl().name()
                if "!" in nm:
                    try:
                        n = int(nm.rsplit("!", 1)[1])
                    except ValueError:
                        return
                    if n >= since and not nm.startswith(run.name_prefix + "ck!"):
                        out[nm] = e
            for c in e.children():
                walk(c)

    for e in exprs:
        walk(e)
    return [out[k] for k in sorted(out)]


def filtered_comprehension(eng, node, frame, kind, view):
    """[e for x in xs if c] over a sequence of symbolic length.  The result is a fresh list L of unknown length n with
    two skolem functions: src(j) = the source position element j comes from (increasing, satisfies c, L[j] = e(xs[src j]))
    and pos(i) = where source element i went, for every i that satisfies c (L[pos i] = e(xs[i]), src(pos i) = i).
    Together: L lists exactly the e(x) of the x that satisfy c, in order.  Element evaluation must not raise."""
    run = eng.run
    from .symexec import SeqView, Frame
    gen = node.generators[0]
    k = z3.Int(run.fresh_name("fk"))
    rng = z3.And(0 <= k, k < view.length)
    f2 = Frame({}, parent=frame)
    f2.qualname = frame.qualname
    nfacts = len(run.facts)
    nraises = len(run.merge_raises)
    ncount = run.peek_counter()
    run.merge_depth += 1
    run.cond_stack.append(rng)
    run.skolem_stack.append(k)
    try:
        eng.assign_target(gen.target, view.nth(k), f2)
        conds = [eng.truth_of(eng.eval(c, f2)) for c in gen.ifs]
        cond = z3.And(conds) if len(conds) > 1 else conds[0]
        run.cond_stack.append(cond)
        try:
            elt = eng.eval(node.elt, f2)
        finally:
            run.cond_stack.pop()
    finally:
        run.skolem_stack.pop()
        run.cond_stack.pop()
        run.merge_depth -= 1
    new_facts = run.facts[nfacts:]
    del run.facts[nfacts:]
    raises = run.merge_raises[nraises:]
    del run.merge_raises[nraises:]
    elt_t = eng.to_tv(elt).val()
    consts = _new_consts([elt_t, cond] + new_facts, run, ncount)
    subst = [(c, z3.Function(c.decl().name() + "_f", z3.IntSort(), c.sort())(k)) for c in consts]
    if raises:
        from .symexec import PyRaise
        if run.merge_depth or run.merge_only:
            raise _U("filtered comprehension whose element or condition may raise, in merge mode")
        if run.track_exc or run.try_depth:
            opts = [("normal", None, None)] + [("raise", c, e) for c, e in raises]
            cnds = [z3.BoolVal(True)] + [z3.And(rng, c) if c is not None else rng for c, e in raises]
            ch = run.choose(len(opts), cnds, "comp-raise")
            if ch > 0:
                _, c, e = opts[ch]
                run.assume(rng)
                for f in new_facts:
                    run.assume(f)
                if c is not None:
                    run.assume(c)
                raise PyRaise(eng.new_exception(e), e, where=(node.lineno, "comprehension element"))
            for c, e in raises:
                if c is not None:
                    ck = z3.substitute(c, *subst) if subst else c
                    run.assume(z3.ForAll([k], z3.Implies(rng, z3.Not(ck))))
    elt_k = z3.substitute(elt_t, *subst) if subst else elt_t
    cond_k = z3.substitute(cond, *subst) if subst else cond
    facts_k = [z3.substitute(f, *subst) if subst else f for f in new_facts]
    if facts_k:
        run.assume(z3.ForAll([k], z3.Implies(rng, z3.And(facts_k))))
    n = z3.Int(run.fresh_name("flen"))
    arr = z3.Const(run.fresh_name("farr"), z3.ArraySort(z3.IntSort(), S.Val))
    srcf = z3.Function(run.fresh_name("fsrc"), z3.IntSort(), z3.IntSort())
    posf = z3.Function(run.fresh_name("fpos"), z3.IntSort(), z3.IntSort())
    j = z3.Int(run.fresh_name("fj"))
    j2 = z3.Int(run.fresh_name("fj2"))
    run.assume(z3.And(n >= 0, n <= view.length))
    at = lambda e, idx: z3.substitute(e, (k, idx))
    run.assume(z3.ForAll([j], z3.Implies(z3.And(0 <= j, j < n),
                                         z3.And(0 <= srcf(j), srcf(j) < view.length, at(cond_k, srcf(j)), z3.Select(arr, j) == at(elt_k, srcf(j)),
                                                posf(srcf(j)) == j)),
                         patterns=[z3.Select(arr, j)]))
    run.assume(z3.ForAll([j, j2], z3.Implies(z3.And(0 <= j, j < j2, j2 < n), srcf(j) < srcf(j2)), patterns=[z3.MultiPattern(srcf(j), srcf(j2))]))
    pats = [posf(k)]
    src_elt = eng.to_tv(view.nth(k)).val()
    if z3.is_app(src_elt) and src_elt.decl().kind() == z3.Z3_OP_UNINTERPRETED and _mentions_const(src_elt, k):
        pats.append(src_elt)
    run.assume(_forall([k], z3.Implies(z3.And(rng, cond_k), z3.And(0 <= posf(k), posf(k) < n, z3.Select(arr, posf(k)) == elt_k, srcf(posf(k)) == k)),
                       pats))
    run.assumptions_used.add("filtered comprehension over a sequence of unknown length: result characterised by skolem position functions")
    if kind == "gen":
        return SeqView(n, lambda i: tv_val(z3.Select(arr, i)))
    fr = run.alloc("list", eng.ct.ext["list"])
    fr.length = n
    fr.arr = arr
    return TV(fr.term)


def _mentions_const(e, c):
    seen = set()
    stack = [e]
    while stack:
        t = stack.pop()
        if t.get_id() in seen:
            continue
        seen.add(t.get_id())
        if t.eq(c):
            return True
        if z3.is_app(t):
            stack.extend(t.children())
    return False


def dict_comprehension(eng, node, frame):
    run = eng.run
    from .symexec import Frame
    if len(node.generators) != 1 or node.generators[0].ifs:
        raise _U("dict comprehension shape")
    gen = node.generators[0]
    src = eng.eval(gen.iter, frame)
    view = seq_view(eng, src)
    fr = new_dict(eng)
    if view.concrete is not None:
        for it in view.concrete:
            f2 = Frame({}, parent=frame)
            f2.qualname = frame.qualname
            eng.assign_target(gen.target, it, f2)
            dict_set(eng, fr, eng.eval(node.key, f2), eng.eval(node.value, f2))
        return TV(fr.term)
    # symbolic: keys assumed pairwise distinct only if they are the keys of a dict view (items())
    k = z3.Int(run.fresh_name("dk"))
    rng = z3.And(0 <= k, k < view.length)
    f2 = Frame({}, parent=frame)
    f2.qualname = frame.qualname
    nfacts = len(run.facts)
    ncount = run.peek_counter()
    run.merge_depth += 1
    run.cond_stack.append(rng)
    try:
        eng.assign_target(gen.target, view.nth(k), f2)
        key = eng.to_tv(eng.eval(node.key, f2)).val()
        val = eng.to_tv(eng.eval(node.value, f2)).val()
    finally:
        run.cond_stack.pop()
        run.merge_depth -= 1
    new_facts = run.facts[nfacts:]
    del run.facts[nfacts:]
    consts = _new_consts([key, val] + new_facts, run, ncount)
    subst = [(c, z3.Function(c.decl().name() + "_f", z3.IntSort(), c.sort())(k)) for c in consts]
    key_k = z3.substitute(key, *subst) if subst else key
    val_k = z3.substitute(val, *subst) if subst else val
    facts_k = [z3.substitute(f, *subst) if subst else f for f in new_facts]
    karr = z3.Const(run.fresh_name("dkeys"), z3.ArraySort(z3.IntSort(), S.Val))
    varr = z3.Const(run.fresh_name("dvals"), z3.ArraySort(z3.IntSort(), S.Val))
    has = z3.Const(run.fresh_name("dhas"), z3.ArraySort(S.Val, z3.BoolSort()))
    get = z3.Const(run.fresh_name("dget"), z3.ArraySort(S.Val, S.Val))
    pats = [z3.Select(karr, k)]
    if z3.is_app(key_k) and key_k.decl().kind() == z3.Z3_OP_UNINTERPRETED and _mentions_const(key_k, k):
        pats.append(key_k)      # also fire on the source's own key term (seq_nth(dict_keys(src), k))
    run.assume(_forall([k], z3.Implies(rng, z3.And([z3.Select(karr, k) == key_k, z3.Select(varr, k) == val_k,
                                                    z3.Select(has, key_k), z3.Select(get, key_k) == val_k] + facts_k)), pats))
    run.assume(z3.ForAll([k], z3.Implies(rng, z3.And([z3.Select(varr, k) == val_k])), patterns=[z3.Select(varr, k)]))
    run.assumptions_used.add("dict comprehension over a symbolic sequence: keys assumed pairwise distinct (they are the keys of a dict in every enrolled use)")
    x = z3.Const(run.fresh_name("dx"), S.Val)
    j = z3.Int(run.fresh_name("dj"))
    run.assume(z3.ForAll([x], z3.Select(has, x) == z3.Exists([j], z3.And(0 <= j, j < view.length, z3.Select(karr, j) == x)), patterns=[z3.Select(has, x)]))
    run.assume(z3.ForAll([j], z3.Implies(z3.And(0 <= j, j < view.length), z3.And(z3.Select(has, z3.Select(karr, j)), z3.Select(get, z3.Select(karr, j)) == z3.Select(varr, j))), patterns=[z3.Select(karr, j)]))
    fr.length, fr.arr, fr.has, fr.get = view.length, karr, has, get
    return TV(fr.term)


# ======================================================================== loops
def loop_ordinal(eng, s, frame):
    """1-based index of this loop among the loops of the enclosing function (source order)."""
    fi_node = frame_func_node(frame)
    if fi_node is None:
        return None
    k = 0
    for n in _walk_fn(fi_node):
        if isinstance(n, (ast.For, ast.While)):
            k += 1
            if n is s:
                return k
    return None


def _walk_fn(fn):
    body = fn.body if isinstance(fn.body, list) else [fn.body]
    stack = list(reversed(body))
    while stack:
        n = stack.pop()
        yield n
        kids = [c for c in ast.iter_child_nodes(n) if not isinstance(c, (ast.FunctionDef, ast.Lambda, ast.ClassDef))]
        stack.extend(reversed(kids))


def frame_func_node(frame):
    f = frame
    while f is not None:
        if getattr(f, "func_node", None) is not None:
            return f.func_node
        if f.fi is not None:
            return f.fi.node
        f = f.parent
    return None


def assigned_names(stmts):
    out = set()
    for s in stmts:
        for n in ast.walk(s):
            if isinstance(n, ast.Name) and isinstance(n.ctx, (ast.Store, ast.Del)):
                out.add(n.id)
    return out


def exec_for(eng, s, frame):
    run = eng.run
    from .symexec import BreakSig, ContinueSig, PathEnd, Frame
    src = eng.eval(s.iter, frame)
    if isinstance(src, GeneratorCall):
        return for_over_generator(eng, s, src, frame)
    view = seq_view(eng, src)
    return exec_for_view(eng, s, frame, view)


def exec_for_view(eng, s, frame, view):
    run = eng.run
    from .symexec import BreakSig, ContinueSig, PathEnd, Frame
    if run.yield_stack and len(s.body) == 1 and isinstance(s.body[0], ast.Expr) and isinstance(s.body[0].value, ast.Yield) \
            and isinstance(s.target, ast.Name) and isinstance(s.body[0].value.value, ast.Name) and s.body[0].value.value.id == s.target.id and not s.orelse:
        # `for x in xs: yield x`  ==  `yield from xs`
        list_extend(eng, run.yield_stack[-1], view)
        return
    # the executor's own contract may give an invariant for this loop
    inv = None
    k_ord = None
    if run.own_contract is not None and is_own_function_frame(eng, frame):
        k_ord = loop_ordinal(eng, s, frame)
        inv = run.own_contract.inv(k_ord) if k_ord else None
    if inv is None:
        items = None
        if view.concrete is not None:
            items = view.concrete
        else:
            ln = z3.simplify(view.length)
            if z3.is_int_value(ln) and ln.as_long() <= 8:
                items = [view.nth(z3.IntVal(i)) for i in range(ln.as_long())]
        if items is None:
            raise _U(f"loop at line {s.lineno} over a symbolic-length sequence needs an invariant")
        broke = False
        for it in items:
            eng.assign_target(s.target, it, frame)
            try:
                eng.exec_block(s.body, frame)
            except BreakSig:
                broke = True
                break
            except ContinueSig:
                continue
        if not broke:
            eng.exec_block(s.orelse, frame)
        return
    return for_with_invariant(eng, s, frame, view, inv, k_ord)


def is_own_function_frame(eng, frame):
    f = frame
    while f is not None:
        if getattr(f, "is_verified_root", False):
            return f is frame or True
        if f.fi is not None and not getattr(f, "is_verified_root", False):
            return False
        f = f.parent
    return False


def inv_bindings(eng, inv, frame, k_term):
    names = [a.arg for a in inv.args.args]
    b = {}
    for n in names:
        if n == "_k":
            b[n] = tv_int(k_term)
        elif frame.has(n):
            b[n] = frame.lookup(n)
        elif n in eng.run.root_bindings:
            b[n] = eng.run.root_bindings[n]
        else:
            raise _U(f"invariant parameter {n} is not a local at the loop head (renamed local?)")
    return b


def havoc_locals(eng, names, frame, tagline, assigned=None):
    run = eng.run
    for n in sorted(names):
        if not frame.has(n):
            continue
        cur = frame.lookup(n)
        if isinstance(cur, TV):
            if cur.sort == "val":
                fr = run.fresh_of(cur.t)
                if fr is not None and not fr.frozen:
                    havoc_fresh(eng, fr)
                    continue
            if assigned is not None and n not in assigned:
                continue    # only possibly-mutated, not rebound: nothing to forget about the binding
            if cur.sort == "val":
                frame.vars[n] = tv_val(z3.Const(run.fresh_name(f"h_{n}"), S.Val))
            else:
                sort = {"int": z3.IntSort(), "bool": z3.BoolSort(), "real": z3.RealSort(), "str": z3.StringSort()}[cur.sort]
                frame.vars[n] = TV(z3.Const(run.fresh_name(f"h_{n}"), sort), cur.sort)
        else:
            pass   # python-side values (closures) are loop invariant by construction


def mutated_fresh(eng, stmts, frame):
    """Fresh containers/objects possibly mutated in the loop body: any local naming a fresh record that
    appears as the receiver of a method call or subscript/attribute store."""
    names = set()
    for s in stmts:
        for n in ast.walk(s):
            if isinstance(n, ast.Call) and isinstance(n.func, ast.Attribute) and isinstance(n.func.value, ast.Name):
                names.add(n.func.value.id)
            if isinstance(n, (ast.Subscript, ast.Attribute)) and isinstance(n.ctx, ast.Store) and isinstance(n.value, ast.Name):
                names.add(n.value.id)
            if isinstance(n, ast.Call):
                for a in n.args:
                    if isinstance(a, ast.Name):
                        names.add(a.id)
    return names


def for_with_invariant(eng, s, frame, view, inv, k_ord):
    run = eng.run
    from .symexec import BreakSig, ContinueSig, PathEnd
    c = run.own_contract
    n = view.length
    # init
    g0 = eng.eval_clause(c, inv, inv_bindings(eng, inv, frame, z3.IntVal(0))).truth()
    run.obligation("inv-init", g0, s, name=f"loop{k_ord}")
    choice = run.choose(2, [z3.BoolVal(True), z3.BoolVal(True)], f"loop{k_ord}")
    asg = assigned_names(s.body)
    mod = asg | (mutated_fresh(eng, s.body, frame))
    mod.discard("_")
    havoc_locals(eng, mod, frame, s.lineno, assigned=asg)
    for m in run.modifies:
        eng.havoc_path(m, run.mod_bound)
    if choice == 0:
        # an arbitrary iteration
        k = z3.Int(run.fresh_name(f"it{k_ord}"))
        run.assume(z3.And(0 <= k, k < n))
        run.assume(eng.eval_clause(c, inv, inv_bindings(eng, inv, frame, k)).truth())
        eng.assign_target(s.target, view.nth(k), frame)
        try:
            eng.exec_block(s.body, frame)
        except ContinueSig:
            pass
        except BreakSig:
            return   # continue after the loop with the current state
        g = eng.eval_clause(c, inv, inv_bindings(eng, inv, frame, k + 1)).truth()
        run.obligation("inv-keep", g, s, name=f"loop{k_ord}")
        raise PathEnd()
    # after the loop
    run.assume(eng.eval_clause(c, inv, inv_bindings(eng, inv, frame, n)).truth())
    run.assume(n >= 0)
    eng.exec_block(s.orelse, frame)


def exec_while(eng, s, frame):
    run = eng.run
    from .symexec import BreakSig, ContinueSig, PathEnd
    inv = var = None
    k_ord = None
    ctr = run.own_contract
    if ctr is not None and is_own_function_frame(eng, frame):
        k_ord = loop_ordinal(eng, s, frame)
        inv = ctr.inv(k_ord) if k_ord else None
        var = ctr.var(k_ord) if k_ord else None
    if inv is None:
        # bounded unrolling only when the test becomes syntactically false quickly
        for _ in range(6):
            c = eng.truth_of(eng.eval(s.test, frame))
            if not eng.branch(c, f"while@{s.lineno}"):
                eng.exec_block(s.orelse, frame)
                return
            try:
                eng.exec_block(s.body, frame)
            except BreakSig:
                return
            except ContinueSig:
                continue
        raise _U(f"while loop at line {s.lineno} needs an invariant")
    g0 = eng.eval_clause(ctr, inv, inv_bindings(eng, inv, frame, z3.IntVal(0))).truth()
    run.obligation("inv-init", g0, s, name=f"loop{k_ord}")
    choice = run.choose(2, [z3.BoolVal(True), z3.BoolVal(True)], f"while{k_ord}")
    asg = assigned_names(s.body)
    mod = asg | mutated_fresh(eng, s.body, frame)
    havoc_locals(eng, mod, frame, s.lineno, assigned=asg)
    for m in run.modifies:
        eng.havoc_path(m, run.mod_bound)
    kk = z3.Int(run.fresh_name(f"wit{k_ord}"))
    run.assume(kk >= 0)
    run.assume(eng.eval_clause(ctr, inv, inv_bindings(eng, inv, frame, kk)).truth())
    c = eng.truth_of(eng.eval(s.test, frame))
    if choice == 0:
        run.assume(c)
        v0 = None
        if var is not None:
            v0 = eng.eval_clause(ctr, var, inv_bindings(eng, var, frame, kk)).as_int()
            run.obligation("variant-nonneg", v0 >= 0, s, name=f"loop{k_ord}")
        try:
            eng.exec_block(s.body, frame)
        except ContinueSig:
            pass
        except BreakSig:
            return
        g = eng.eval_clause(ctr, inv, inv_bindings(eng, inv, frame, kk + 1)).truth()
        run.obligation("inv-keep", g, s, name=f"loop{k_ord}")
        if var is not None:
            v1 = eng.eval_clause(ctr, var, inv_bindings(eng, var, frame, kk + 1)).as_int()
            run.obligation("variant-decreases", v1 < v0, s, name=f"loop{k_ord}")
        raise PathEnd()
    if z3.is_false(z3.simplify(z3.Not(c))):
        from .symexec import PathEnd
        raise PathEnd()        # `while True`: the loop is only ever left through break / return / raise
    run.assume(z3.Not(c))
    eng.exec_block(s.orelse, frame)


MUTATORS = {"append", "extend", "insert", "pop", "remove", "clear", "sort", "reverse", "update", "setdefault", "popitem", "add", "discard",
            "appendleft", "popleft"}


def generator_is_pure(fnode):
    """no stores to attributes/items and no mutating method calls: then running the generator to completion
    before its consumer (eager evaluation) is observationally the same as interleaving"""
    for n in ast.walk(fnode):
        if isinstance(n, (ast.Attribute, ast.Subscript)) and isinstance(n.ctx, (ast.Store, ast.Del)):
            return False
        if isinstance(n, ast.Call) and isinstance(n.func, ast.Attribute) and n.func.attr in MUTATORS:
            return False
        if isinstance(n, (ast.Global, ast.Nonlocal)):
            return False
    return True


def eager_generator(eng, gc):
    from .symexec import Frame, ReturnSig, SeqView
    run = eng.run
    fi = gc.fi
    if not generator_is_pure(fi.node):
        raise _U(f"generator {fi.key} has side effects that interleave with its consumer (not inlined)")
    if run.merge_depth > 0 or run.merge_only:
        raise _U("generator consumed inside a merged expression")
    run.assumptions_used.add("side-effect-free generators are evaluated eagerly (equivalent to lazy evaluation for pure generators)")
    modframe = Frame({}, module=fi.module, cls=fi.cls)
    bound = eng.bind_args(fi.node, gc.args, gc.kwargs, modframe, what=fi.key)
    frame = Frame(bound, module=fi.module, cls=fi.cls, fi=fi)
    frame.qualname = fi.qualname
    if fi.cls is not None and fi.node.args.args:
        frame.self_val = bound[fi.node.args.args[0].arg]
    out = new_list(eng)
    run.yield_stack.append(out)
    run.depth += 1
    run.inline_stack.append(fi.key)
    try:
        try:
            eng.exec_block(fi.node.body, frame)
        except ReturnSig:
            pass
    finally:
        run.yield_stack.pop()
        run.depth -= 1
        run.inline_stack.pop()
    return seq_view(eng, TV(out.term))


def for_over_generator(eng, s, gc, frame):
    view = eager_generator(eng, gc)
    holder = "__gen_%d" % id(s)
    frame.vars[holder] = view
    s2 = ast.For(target=s.target, iter=ast.Name(id=holder, ctx=ast.Load()), body=s.body, orelse=s.orelse, lineno=s.lineno, col_offset=0)
    eng._for_alias = getattr(eng, "_for_alias", {})
    eng._for_alias[id(s2)] = s
    return exec_for_view(eng, s, frame, view)


def exec_yield(eng, node, frame):
    run = eng.run
    if not run.yield_stack:
        raise _U("yield outside an inlined generator")
    out = run.yield_stack[-1]
    if isinstance(node, ast.Yield):
        v = eng.eval(node.value, frame) if node.value is not None else TV_NONE
        out.arr = z3.Store(out.arr, out.length, eng.to_tv(v).val())
        out.length = out.length + 1
        return TV_NONE
    src = eng.eval(node.value, frame)
    list_extend(eng, out, seq_view(eng, src))
    return TV_NONE


def exec_with(eng, s, frame):
    """`with obj.cm(args):` for a repository @contextmanager of the shape  <setup statements>; try: yield; finally: <cleanup>.
    The generator is inlined: setup runs in its own frame, then the body of the with statement, then the cleanup - also
    when the body leaves by an exception, return, break or continue."""
    from .symexec import Frame, PyRaise, ReturnSig, BreakSig, ContinueSig
    if len(s.items) != 1 or s.items[0].optional_vars is not None or not isinstance(s.items[0].context_expr, ast.Call):
        raise _U("with statement (only `with f(...):` without `as` is modelled)")
    call = s.items[0].context_expr
    callee = eng.eval(call.func, frame)
    if not (isinstance(callee, BoundMethod) and callee.candidates and callee.candidates[0][1].kind == "contextmanager"):
        raise _U("with statement over something that is not a repository @contextmanager method")
    classes, fi = callee.candidates[0]
    body = list(fi.node.body)
    while body and isinstance(body[0], ast.Expr) and isinstance(body[0].value, ast.Constant):
        body = body[1:]       # docstring
    if not body or not isinstance(body[-1], ast.Try):
        raise _U("contextmanager shape")
    tr = body[-1]
    setup = body[:-1]
    if (tr.handlers or tr.orelse or len(tr.body) != 1 or not isinstance(tr.body[0], ast.Expr) or not isinstance(tr.body[0].value, ast.Yield)
            or tr.body[0].value.value is not None):
        raise _U("contextmanager shape (expected try: yield / finally: ...)")
    args, kwargs = eval_args(eng, call, frame)
    bound = eng.bind_args(fi.node, args, kwargs, frame, self_val=callee.recv, what=fi.qualname)
    cm = Frame(bound, module=fi.module, cls=fi.cls, fi=fi)
    cm.qualname = fi.qualname
    eng.exec_block(setup, cm)
    try:
        eng.exec_block(s.body, frame)
    except (PyRaise, ReturnSig, BreakSig, ContinueSig):
        eng.exec_block(tr.finalbody, cm)
        raise
    eng.exec_block(tr.finalbody, cm)
