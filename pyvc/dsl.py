"""Contract language: ordinary Python, usable two ways.

* executed natively (under /venv/bin/python, on real jaqalpaq objects) by the run-time
  monitor, the replay tool and the bounded stand-ins;
* parsed (never imported) by the symbolic executor, which translates the same function
  bodies to SMT.

Vocabulary (all of it):

  @spec                      pure (possibly recursive) specification function.  Parameter and
                             return annotations int/bool/float select SMT sorts, default Val.
  @contract(key, props=[..]) class whose methods are the clauses for the real function `key`
                             ('core.register:Register.resolve_qubit'):
        requires(params)                 precondition
        ensures[_name](params, result)   postcondition conjunct(s) at normal exit
        raises_<Exc>(params)             the function raises <Exc> exactly when this holds (pre-state)
        raises_<Exc>_when(params)        ... at least when this holds
        raises_only = ("JaqalError",)    no other exception class escapes
        modifies = ("self.index",)       frame; default: nothing but fresh objects
        decreases(params)                termination measure (int >= 0)
        inv_<k>(params, locals.., _k)    invariant of the k-th loop (1-based, source order)
        var_<k>(params, locals..)        variant of the k-th (while) loop
        region_<name>(params)            region predicate of a known finding
        ghost = ("E",)                   universally quantified ghost parameters
  @lemma(props=[..])         ghost function: `requires`-like asserts via assume(...), body may call
                             real functions; the returned boolean expression is the lemma.
  @assumed(key, ...)         same shape as @contract but NOT verified: listed as an assumption.

Helper predicates usable inside clauses: is_int, is_float, is_num, is_str, is_none, implies, iff,
forall_range, exists_range, forall_in, old (only in ensures), fresh (result newly allocated),
type_is, pow2, bit.
"""
import sys

nat = int

REGISTRY = {"spec": {}, "contract": {}, "lemma": {}, "assumed": {}}


def spec(fn):
    REGISTRY["spec"][fn.__name__] = fn
    return fn


def contract(key, props=(), **kw):
    def deco(cls):
        cls._key = key
        cls._props = tuple(props)
        cls._opts = kw
        REGISTRY["contract"].setdefault(key, []).append(cls)
        return cls
    return deco


def assumed(key, props=(), **kw):
    def deco(cls):
        cls._key = key
        cls._props = tuple(props)
        cls._opts = kw
        REGISTRY["assumed"].setdefault(key, []).append(cls)
        return cls
    return deco


def lemma(props=(), **kw):
    def deco(fn):
        fn._props = tuple(props)
        REGISTRY["lemma"][fn.__name__] = fn
        return fn
    return deco


# ---- helper predicates (native implementations) --------------------------------
def is_int(x):
    return isinstance(x, int) and not isinstance(x, bool)


def is_bool(x):
    return isinstance(x, bool)


def is_intlike(x):
    return isinstance(x, int)


def is_float(x):
    return isinstance(x, float)


def is_num(x):
    return isinstance(x, (int, float))


def is_str(x):
    return isinstance(x, str)


def is_none(x):
    return x is None


def implies(a, b):
    return (not a) or bool(b)


def iff(a, b):
    return bool(a) == bool(b)


def forall_range(n, p):
    return all(p(k) for k in range(n))


def exists_range(n, p):
    return any(p(k) for k in range(n))


def forall_in(seq, p):
    return all(p(x) for x in seq)


def type_is(x, cls):
    return type(x) is cls


def pow2(n):
    return 2 ** n


def bit(x, j):
    return (x >> j) & 1 == 1


def same(a, b):
    """Identity for objects, value equality for numbers/strings/None."""
    if isinstance(a, (int, float, str, type(None))) or isinstance(b, (int, float, str, type(None))):
        return type(a) is type(b) and a == b
    return a is b


class _Old:
    """old(x) in an ensures clause: natively the monitor evaluates ensures with a snapshot
    namespace; plain pass-through is used when nothing was mutated."""
    def __call__(self, x):
        return x


old = _Old()


def fresh(x):
    return True


def range_len(lo, hi, st):
    return len(range(lo, hi, st))


def has_key(d, k):
    return k in d


def dict_lookup(d, k):
    return d[k]


def dict_len(d):
    return len(d)


def dict_key_at(d, j):
    """the j-th key in iteration order"""
    return list(d.keys())[j]


def dict_val_at(d, j):
    return list(d.values())[j]


def str_len(s):
    return len(s)


def singleton(s, x):
    return set(s) == {x}


def forall_keys(d, p):
    return all(p(k) for k in d)


class _IterProbe:
    """Native stand-in: list iterators expose neither position nor sequence; clauses using these are symbolic-only."""


def iter_pos(it):
    import operator
    return -operator.length_hint(it)


def iter_seq(it):
    return list(it)


def is_iterator(it):
    return hasattr(it, "__next__")
