"""Symbolic executor over the real /repo ASTs: generates verification conditions.

Path enumeration is by *replay*: a run follows a list of recorded decisions; when it
needs a decision beyond the list it checks which alternatives are feasible, takes the
first and schedules the others.  Inside one run every evaluator returns a single value,
Python exceptions carry control flow (return / raise / break / continue).
"""
import ast
import itertools
import z3

from . import smt as S
from .values import *
from .classtable import ClassInfo, ExternalClass, FuncInfo, ClassTable
from .contracts import ContractSet, ContractInfo


class Unsupported(Exception):
    pass


class PyRaise(Exception):
    def __init__(self, exc, cls, where=None):
        self.exc = exc      # TV (exception object) or None
        self.cls = cls      # ClassInfo / ExternalClass
        self.where = where


class ReturnSig(Exception):
    def __init__(self, value):
        self.value = value


class BreakSig(Exception):
    pass


class ContinueSig(Exception):
    pass


class PathEnd(Exception):
    """This run ends here without reaching a function exit (loop-iteration sub path, ...)."""


class Infeasible(Exception):
    pass


class Obligation:
    def __init__(self, oid, kind, facts, goal, line=None, note=None, decisions=None):
        self.id = oid
        self.kind = kind
        self.facts = list(facts)
        self.goal = goal
        self.line = line
        self.note = note
        self.decisions = decisions
        self.result = None
        self.solver = None
        self.time = 0.0
        self.model = None

    def __repr__(self):
        return f"<Obl {self.id} {self.result}>"


class Fresh:
    def __init__(self, n, kind, cls, term):
        self.n = n
        self.kind = kind        # obj | list | tuple | dict | set | deque
        self.cls = cls
        self.term = term
        self.fields = {}
        self.length = None
        self.arr = None
        self.has = None
        self.get = None
        self.frozen = False
        self.default_factory = None   # defaultdict

    def copy(self):
        f = Fresh(self.n, self.kind, self.cls, self.term)
        f.__dict__.update(self.__dict__)
        f.fields = dict(self.fields)
        return f


class SeqView(PyObj):
    def __init__(self, length, nth, concrete=None, src=None):
        self.length = length      # z3 Int
        self.nth = nth            # callable z3 Int -> TV / PyObj
        self.concrete = concrete  # optional python list of items
        self.src = src


class Frame:
    _ids = itertools.count()

    def __init__(self, vars=None, module=None, cls=None, fi=None, parent=None):
        self.vars = vars or {}
        self.module = module
        self.cls = cls          # lexically enclosing class (for super())
        self.fi = fi
        self.parent = parent    # enclosing frame for closures
        self.self_val = None
        self.qualname = None

    def lookup(self, name):
        f = self
        while f is not None:
            if name in f.vars:
                return f.vars[name]
            f = f.parent
        raise KeyError(name)

    def has(self, name):
        f = self
        while f is not None:
            if name in f.vars:
                return True
            f = f.parent
        return False


ARR = z3.ArraySort(z3.IntSort(), S.Val)
SETARR = z3.ArraySort(S.Val, z3.BoolSort())
MAPARR = z3.ArraySort(S.Val, S.Val)


def frame_module_of(frame):
    f = frame
    while f is not None and f.module is None:
        f = f.parent
    return f.module if f else None


class Engine:
    def __init__(self, ct=None, cs=None, timeout_ms=20000, feas_timeout_ms=400):
        self.ct = ct or ClassTable()
        self.cs = cs or ContractSet()
        self.timeout_ms = timeout_ms
        self.feas_timeout_ms = feas_timeout_ms
        self.class_ids = {}
        for k, c in enumerate(sorted(self.ct.every_class(), key=lambda c: c.key)):
            self.class_ids[c.key] = k + 1
        self.enum_ids = {}
        self._enum_init()
        self.spec_decls = {}
        self.spec_axioms = {}
        self.spec_defining = set()
        self.spec_defined = set()
        self.feas_cache = {}
        self.stats = {"feas_checks": 0, "runs": 0, "feas_time": 0.0}
        self._const_counter = None
        self.world_axioms = []
        from . import builtins as B
        self.B = B
        self._declare_specs()

    # ------------------------------------------------------------------ classes
    def _enum_init(self):
        # enum members of repo enums (ParamType): literal class-body assignments
        for ci in self.ct.all_classes():
            if any(getattr(b, "name", None) == "Enum" for b in ci.mro):
                members = {}
                for k, (name, expr) in enumerate(ci.class_attrs.items()):
                    members[name] = k + 1
                self.enum_ids[ci.key] = members

    def clsid(self, c):
        return self.class_ids[c.key]

    def cls_of(self, v):
        """z3 Int: class id of a Val term."""
        t = v
        ids = self.class_ids
        if z3.is_app(t):
            d = t.decl()
            if d.eq(S.VInt):
                return z3.IntVal(ids["builtins:int"])
            if d.eq(S.VBool):
                return z3.IntVal(ids["builtins:bool"])
            if d.eq(S.VNone):
                return z3.IntVal(ids["builtins:NoneType"])
            if d.eq(S.VStr):
                return z3.IntVal(ids["builtins:str"])
            if d.eq(S.VReal):
                return z3.IntVal(ids["builtins:float"])
            if d.eq(S.VObj):
                return self._obj_cls(t.arg(0))
            if d.eq(S.VAll):
                return z3.IntVal(ids["builtins:builtin_all"])
        return z3.If(S.is_VObj(t), self._obj_cls(S.oid(t)),
               z3.If(S.is_VInt(t), ids["builtins:int"],
               z3.If(S.is_VBool(t), ids["builtins:bool"],
               z3.If(S.is_VNone(t), ids["builtins:NoneType"],
               z3.If(S.is_VStr(t), ids["builtins:str"],
               z3.If(S.is_VReal(t), ids["builtins:float"],
               z3.If(S.is_VEnum(t), self._enum_cls(t), ids["builtins:builtin_all"])))))))

    def _obj_cls(self, o):
        """class id of an object id; heap objects never have the class of a primitive or an enum"""
        oc = S.ocls(o)
        so = z3.simplify(oc)
        prim = self._prim_ids()
        if z3.is_int_value(so):
            return so if so.as_long() not in prim else z3.IntVal(0)
        return z3.If(z3.Or([oc == i for i in sorted(prim)]), z3.IntVal(0), oc)

    def _prim_ids(self):
        if not hasattr(self, "_prim"):
            ids = {self.class_ids[f"builtins:{n}"] for n in ("int", "bool", "float", "str", "NoneType", "builtin_all")}
            ids |= {self.class_ids[k] for k in self.enum_ids}
            self._prim = ids
        return self._prim

    def _enum_cls(self, t):
        e = S.ecls(t)
        m = S.eid(t)
        conds = []
        for k, members in self.enum_ids.items():
            conds.append(z3.And(e == self.class_ids[k], m >= 1, m <= len(members)))
        if not conds:
            return z3.IntVal(0)
        return z3.If(z3.Or(conds), e, z3.IntVal(0))

    def concrete_subclasses(self, c):
        return [c] + sorted(c.subclasses, key=lambda x: x.key)

    def isinstance_expr(self, v, classes):
        """z3 Bool: Val term v is an instance of one of `classes`."""
        if not isinstance(classes, (list, tuple)):
            classes = [classes]
        ids = set()
        for c in classes:
            for s in self.concrete_subclasses(c):
                ids.add(self.clsid(s))
        co = self.cls_of(v)
        if z3.is_int_value(co):
            return z3.BoolVal(co.as_long() in ids)
        enum_ids = {self.class_ids[k] for k in self.enum_ids}
        parts = []
        for i in sorted(ids):
            parts.append(z3.And(co == i, S.is_VEnum(v)) if i in enum_ids else co == i)
        return z3.Or(parts) if parts else z3.BoolVal(False)

    def static_class(self, tv):
        """Exact class if syntactically known (fresh object, literal), else None."""
        if isinstance(tv, TV):
            if tv.sort == "int":
                return self.ct.ext["int"]
            if tv.sort == "bool":
                return self.ct.ext["bool"]
            if tv.sort == "str":
                return self.ct.ext["str"]
            if tv.sort == "real":
                return self.ct.ext["float"]
            t = tv.t
            fr = self.run.fresh_of(t)
            if fr is not None:
                return fr.cls
            if z3.is_app(t) and t.decl().eq(S.VNone):
                return self.ct.ext["NoneType"]
            k = self.run.exact_cls.get(t.get_id())
            if k is not None:
                return k
        return None


    # ------------------------------------------------------------------ class-level attributes
    def class_attr_value(self, owner, name, expr):
        """Value of a class attribute.  A constant initialiser (number, string, None, bool, name of a class/function,
        tuple of those) is evaluated; a mutable one (dict/list/set display, a call) is SHARED STATE: one world object
        per (class, attribute) whose contents are unknown - it may have been filled by earlier calls - and which is
        not fresh (a store into it is a store into the world, checked against the frame)."""
        def constant(e):
            if isinstance(e, ast.Constant):
                return True
            if isinstance(e, (ast.Name, ast.Attribute)):
                return True
            if isinstance(e, ast.Tuple):
                return all(constant(x) for x in e.elts)
            if isinstance(e, ast.UnaryOp):
                return constant(e.operand)
            if isinstance(e, ast.BinOp):
                return constant(e.left) and constant(e.right)
            return False
        if constant(expr):
            return self.eval(expr, Frame({}, module=owner.module, cls=owner))
        t = z3.Const(f"cattr_{owner.name}_{name}", S.Val)
        kind = None
        if isinstance(expr, (ast.Dict, ast.DictComp)) or (isinstance(expr, ast.Call) and isinstance(expr.func, ast.Name) and expr.func.id in ("dict", "OrderedDict", "defaultdict")):
            kind = "dict"
        elif isinstance(expr, (ast.List, ast.ListComp)) or (isinstance(expr, ast.Call) and isinstance(expr.func, ast.Name) and expr.func.id == "list"):
            kind = "list"
        elif isinstance(expr, (ast.Set, ast.SetComp)) or (isinstance(expr, ast.Call) and isinstance(expr.func, ast.Name) and expr.func.id == "set"):
            kind = "set"
        if kind is not None and kind in self.ct.ext:
            self.run.assume(self.isinstance_expr(t, [self.ct.ext[kind]]))
        self.run.assumptions_used.add("mutable class-level attributes are shared state of unknown content")
        return tv_val(t)

    # ------------------------------------------------------------------ spec functions
    def _sort_of(self, s):
        return {"val": S.Val, "int": z3.IntSort(), "bool": z3.BoolSort(), "real": z3.RealSort(), "str": z3.StringSort()}[s]

    def _declare_specs(self):
        for sp in self.cs.specs.values():
            if sp.recursive:
                sorts = [self._sort_of(s) for s in sp.arg_sorts] + [self._sort_of(sp.ret_sort)]
                self.spec_decls[sp.name] = z3.Function(f"spec_{sp.name}", *sorts)

    def _define_spec(self, name):
        """Recursive spec functions are uninterpreted symbols with a definitional axiom
        (trigger: the application); solve() adds the axioms of the symbols an obligation mentions."""
        if name in self.spec_defined or name in self.spec_defining:
            return
        sp = self.cs.specs[name]
        if sp.abstract:
            self.spec_defined.add(name)
            return
        self.spec_defining.add(name)
        params = [z3.Const(f"{name}__{a.arg}", self._sort_of(s)) for a, s in zip(sp.node.args.args, sp.arg_sorts)]
        saved = self.run
        self.run = Run(self, [], merge_only=True)
        self.run.name_prefix = f"sp_{name}_"
        try:
            frame = Frame({a.arg: TV(p, s) for a, p, s in zip(sp.node.args.args, params, sp.arg_sorts)}, module=("contracts", sp.module))
            frame.qualname = name
            res = self.merge_block(sp.node.body, frame)
            if res is None:
                raise Unsupported(f"spec {name} does not return on all paths")
            body = self.coerce(res, sp.ret_sort)
        finally:
            self.run = saved
        self.spec_defining.discard(name)
        self.spec_defined.add(name)
        self.spec_axioms[name] = (params, body, sp.nat)

    def coerce(self, v, sort):
        if isinstance(v, PyObj):
            v = self.to_tv(v)
        if sort == "val":
            return v.val()
        if sort == "int":
            return v.as_int()
        if sort == "bool":
            return v.truth()
        if sort == "real":
            return v.as_real()
        if sort == "str":
            return v.as_str()
        raise AssertionError(sort)

    def call_spec(self, name, args):
        sp = self.cs.specs[name]
        if len(args) != len(sp.arg_sorts):
            raise Unsupported(f"spec {name}: arity")
        if sp.recursive:
            self._define_spec(name)
            zargs = [self.coerce(a, s) for a, s in zip(args, sp.arg_sorts)]
            fdecl = self.spec_decls[name]
            app = fdecl(*zargs)
            return TV(app, sp.ret_sort) if sp.ret_sort != "val" else tv_val(app)
        # non recursive: macro expansion
        frame = Frame({a.arg: (TV(self.coerce(v, s), s) if s != "val" else (v if isinstance(v, PyObj) else tv_val(v.val()))) for a, v, s in zip(sp.node.args.args, args, sp.arg_sorts)},
                      module=("contracts", sp.module))
        frame.qualname = name
        saved_merge = self.run.merge_depth
        self.run.merge_depth += 1
        self.run.spec_depth += 1
        try:
            res = self.merge_block(sp.node.body, frame)
        finally:
            self.run.merge_depth = saved_merge
            self.run.spec_depth -= 1
        if res is None:
            raise Unsupported(f"spec {name} does not return on all paths")
        if sp.ret_sort != "val":
            return TV(self.coerce(res, sp.ret_sort), sp.ret_sort)
        return res

    # ------------------------------------------------------------------ merge-mode block evaluation
    def merge_block(self, stmts, frame):
        """Evaluate a statement list functionally: returns the returned value (ite-merged) or None."""
        for i, s in enumerate(stmts):
            if isinstance(s, ast.Return):
                return self.eval(s.value, frame) if s.value is not None else TV_NONE
            if isinstance(s, ast.If):
                c = self.eval(s.test, frame)
                cb = self.truth_of(c)
                cbs = z3.simplify(cb)
                rest = stmts[i + 1:]
                if z3.is_true(cbs):
                    return self.merge_block(list(s.body) + rest, frame)
                if z3.is_false(cbs):
                    return self.merge_block(list(s.orelse) + rest, frame)
                f1 = Frame(dict(frame.vars), frame.module, frame.cls, frame.fi, frame.parent)
                f2 = Frame(dict(frame.vars), frame.module, frame.cls, frame.fi, frame.parent)
                f1.qualname = f2.qualname = frame.qualname
                self.run.cond_stack.append(cb)
                try:
                    r1 = self.merge_block(list(s.body) + rest, f1)
                finally:
                    self.run.cond_stack.pop()
                self.run.cond_stack.append(z3.Not(cb))
                try:
                    r2 = self.merge_block(list(s.orelse) + rest, f2)
                finally:
                    self.run.cond_stack.pop()
                if r1 is None or r2 is None:
                    if r1 is None and r2 is None:
                        return None
                    raise Unsupported("merge mode: branch without return")
                return self.ite(cb, r1, r2)
            if isinstance(s, ast.Assign):
                v = self.eval(s.value, frame)
                for t in s.targets:
                    self.assign_target(t, v, frame)
                continue
            if isinstance(s, ast.Expr):
                if isinstance(s.value, ast.Constant):
                    continue
                self.eval(s.value, frame)
                continue
            if isinstance(s, ast.Pass):
                continue
            if isinstance(s, ast.Raise):
                # a raise in merge mode: record the condition, value is irrelevant
                exc_cls = self._raise_class(s, frame)
                self.run.merge_raises.append((z3.And(self.run.cond_stack) if self.run.cond_stack else z3.BoolVal(True), exc_cls))
                return TV(z3.FreshConst(S.Val, "raised"), "val")
            if isinstance(s, (ast.ImportFrom, ast.Import)):
                continue
            raise Unsupported(f"merge mode statement {type(s).__name__} line {getattr(s, 'lineno', '?')}")
        return None

    def _raise_class(self, s, frame):
        e = s.exc
        if isinstance(e, ast.Call):
            e = e.func
        if isinstance(e, ast.Name):
            r = self.resolve_global(frame, e.id)
            if isinstance(r, ClassRef):
                return r.cls
        raise Unsupported("raise of non-class")

    def ite(self, c, a, b):
        if isinstance(a, PyObj) or isinstance(b, PyObj):
            if a is b:
                return a
            if isinstance(a, (BoundMethod, Closure, FuncRef, ClassRef, ModuleRef, BuiltinRef)) or isinstance(b, (BoundMethod, Closure, FuncRef, ClassRef, ModuleRef, BuiltinRef)):
                raise Unsupported("ite over python-side callables")
            a = self.to_tv(a)
            b = self.to_tv(b)
        if a.sort == b.sort:
            if a.t.eq(b.t):
                return a
            return TV(z3.If(c, a.t, b.t), a.sort)
        if a.sort in ("int", "bool") and b.sort in ("int", "bool") and False:
            return TV(z3.If(c, a.as_int(), b.as_int()), "int")
        return tv_val(z3.If(c, a.val(), b.val()))

    def truth_of(self, v):
        if isinstance(v, PyObj):
            if isinstance(v, TupleVal):
                return z3.BoolVal(len(v.items) > 0)
            if isinstance(v, SeqView):
                return v.length > 0
            return z3.BoolVal(True)
        if v.sort == "val":
            if z3.is_app(v.t) and v.t.decl().kind() == z3.Z3_OP_ITE:
                # a merged value (x if c else y, `a and b`): the truth of each alternative, so that fresh containers
                # among them keep their own notion of emptiness
                c, a, b = v.t.arg(0), v.t.arg(1), v.t.arg(2)
                return z3.If(c, self.truth_of(tv_val(a)), self.truth_of(tv_val(b)))
            fr = self.run.fresh_of(v.t)
            if fr is not None:
                if fr.kind in ("list", "tuple", "deque"):
                    return fr.length > 0
                if fr.kind == "dict":
                    return fr.length > 0
                if fr.kind == "obj":
                    return self._obj_truth(v, fr.cls)
            sc = self.static_class(v)
            if sc is not None and isinstance(sc, ClassInfo):
                return self._obj_truth(v, sc)
            # generic: containers of the frozen world are true iff non-empty
            t = v.t
            cont = self.isinstance_expr(t, [self.ct.ext[n] for n in ("list", "tuple", "dict", "deque", "set")])
            if z3.is_false(z3.simplify(cont)):
                return S.truthy(t)
            return z3.If(cont, self._container_len(t) > 0, S.truthy(t))
        return v.truth()

    def _obj_truth(self, v, cls):
        if cls.lookup("__bool__") or cls.lookup("__len__"):
            r = cls.lookup("__len__")
            if r and r[0] == "method":
                ln = self.call_function(r[2], [v], {}, self_cls=cls)
                return ln.as_int() != 0
            raise Unsupported("__bool__")
        return z3.BoolVal(True)

    def _container_len(self, t):
        isd = self.isinstance_expr(t, [self.ct.ext["dict"]])
        if z3.is_false(z3.simplify(isd)):
            return S.seq_len(t)
        return z3.If(isd, S.seq_len(S.dict_keys(t)), S.seq_len(t))

    # ------------------------------------------------------------------ name resolution
    def resolve_global(self, frame, name):
        f = frame
        while f is not None and f.module is None:
            f = f.parent
        module = f.module if f else None
        if isinstance(module, tuple):  # contracts module
            return self.resolve_contract_name(name)
        r = self.ct.resolve_name(module, name) if module else None
        if r is None:
            if name in self.B.BUILTIN_NAMES:
                return BuiltinRef(name)
            if name in self.ct.ext:
                return ClassRef(self.ct.ext[name])
            raise Unsupported(f"unresolved name {name} in {module}")
        return self._wrap_resolved(r, module, name)

    def _wrap_resolved(self, r, module, name):
        if isinstance(r, (ClassInfo, ExternalClass)):
            return ClassRef(r)
        if isinstance(r, FuncInfo):
            return FuncRef(r)
        if isinstance(r, tuple):
            if r[0] == "module":
                return ModuleRef(r[1])
            if r[0] == "global":
                mi, expr = r[1], r[2]
                fr = Frame({}, module=mi.name)
                return self.eval(expr, fr)
            if r[0] == "external":
                return BuiltinRef(f"{r[1]}.{r[2]}")
        raise Unsupported(f"cannot use global {name}")

    def resolve_contract_name(self, name):
        if name in self.cs.specs:
            return SpecRef(name)
        if name in self.B.DSL_NAMES:
            return BuiltinRef("dsl." + name)
        if name in self.B.BUILTIN_NAMES:
            return BuiltinRef(name)
        try:
            return ClassRef(self.ct.find_class(name))
        except KeyError:
            pass
        if name == "ParamType":
            return ClassRef(self.ct.find_class("ParamType"))
        raise Unsupported(f"unresolved contract name {name}")

    # ------------------------------------------------------------------ decisions
    def branch(self, cond, what="if"):
        """Decide a boolean condition on this path; records the fact."""
        run = self.run
        cs = z3.simplify(cond)
        if z3.is_true(cs):
            return True
        if z3.is_false(cs):
            return False
        if run.merge_depth > 0 or run.merge_only:
            raise Unsupported("branch in merge mode")
        idx = run.choose(2, [cond, z3.Not(cond)], what)
        if idx == 0:
            run.assume(cond)
            return True
        run.assume(z3.Not(cond))
        return False

    def feasible(self, facts, extra, run=None):
        key = (tuple(f.get_id() for f in facts), extra.get_id())
        r = self.feas_cache.get(key)
        if r is not None:
            return r[0]
        import time
        t0 = time.time()
        run = run if run is not None else self.run
        use_inc = run is not None and facts is run.facts
        from . import axioms
        if use_inc:
            st = run.inc
            if st is None or st["n"] > len(facts) or any(not a.eq(b) for a, b in zip(st["sig"], facts[:st["n"]])):
                s = z3.Solver()
                s.set("timeout", self.feas_timeout_ms)
                st = run.inc = {"solver": s, "n": 0, "sig": [], "done": set()}
            s = st["solver"]
            new = facts[st["n"]:]
            for f in new:
                s.add(f)
            st["sig"] = list(facts)
            st["n"] = len(facts)
            if self.spec_decls and not self.spec_defining:
                for ax in axioms.ground_unfold(self, new + [extra], depth=2, done=st["done"]):
                    s.add(ax)
            try:
                res = self._guarded_check(s, extra)
            except (z3.Z3Exception, MemoryError):
                res = z3.unknown
                run.inc = None
        else:
            s = z3.Solver()
            s.set("timeout", self.feas_timeout_ms)
            for f in facts:
                s.add(f)
            s.add(extra)
            if self.spec_decls and not self.spec_defining:
                for ax in axioms.ground_unfold(self, list(facts) + [extra], depth=2):
                    s.add(ax)
            try:
                res = self._guarded_check(s)
            except (z3.Z3Exception, MemoryError):
                res = z3.unknown
        self.stats["feas_checks"] += 1
        self.stats["feas_time"] += time.time() - t0
        ok = res != z3.unsat
        if res == z3.unknown:
            self.stats["feas_unknown"] = self.stats.get("feas_unknown", 0) + 1
            self.stats["feas_unknown_time"] = self.stats.get("feas_unknown_time", 0.0) + time.time() - t0
        self.feas_cache[key] = (ok, list(facts), extra)
        return ok

    def _guarded_check(self, s, *assumptions):
        import threading
        ctx = z3.main_ctx()
        fired = []

        def stop():
            fired.append(1)
            try:
                ctx.interrupt()
            except Exception:
                pass
        t = threading.Timer(self.feas_timeout_ms / 1000.0 + 1.0, stop)
        t.daemon = True
        t.start()
        try:
            r = s.check(*assumptions)
        finally:
            t.cancel()
        if fired:
            self.stats["feas_interrupted"] = self.stats.get("feas_interrupted", 0) + 1
            if self.run is not None:
                self.run.inc = None      # an interrupted incremental solver is rebuilt
            return z3.unknown
        return r

    def feasible_strong(self, facts, extra):
        """Second opinion for dispatch decisions: quantified definitional axioms (e-matching can
        instantiate element-wise facts that ground unfolding cannot reach).  Only `unsat` prunes."""
        key = ("strong", tuple(f.get_id() for f in facts), extra.get_id())
        r = self.feas_cache.get(key)
        if r is not None:
            return r[0]
        from . import axioms
        s = z3.Solver()
        s.set("timeout", 600)
        for f in facts:
            s.add(f)
        s.add(extra)
        names = axioms.spec_symbols(self, list(facts) + [extra])
        for ax in axioms.spec_axioms(self, names):
            s.add(ax)
        from .verify import _checked
        import time as _t
        _t0 = _t.time()
        ok = _checked(s, 600) != z3.unsat
        if _t.time() - _t0 > 3:
            self.stats["feas_strong_slow"] = self.stats.get("feas_strong_slow", 0) + 1
        self.stats["feas_strong"] = self.stats.get("feas_strong", 0) + 1
        self.feas_cache[key] = (ok, list(facts), extra)
        return ok

    # ------------------------------------------------------------------ values
    def to_tv(self, v):
        """Materialise python-side values as Val terms where possible."""
        if isinstance(v, TV):
            return v
        if isinstance(v, TupleVal):
            fr = self.run.alloc(v.kind if v.kind in ("list", "tuple") else "tuple", self.ct.ext["list" if v.kind == "list" else "tuple"])
            arr = z3.K(z3.IntSort(), S.VNone)
            for k, it in enumerate(v.items):
                arr = z3.Store(arr, k, self.to_tv(it).val())
            fr.arr = arr
            fr.length = z3.IntVal(len(v.items))
            return TV(fr.term)
        if isinstance(v, SeqView):
            return self.materialise_seq(v, "list")
        if isinstance(v, ClassRef):
            # classes as values: only identity matters
            return TV(S.VEnum(z3.IntVal(0), z3.IntVal(self.clsid(v.cls))))
        if isinstance(v, (Closure, FuncRef, BoundMethod)):
            return self.run.closure_val(v)
        if isinstance(v, BuiltinRef) and v.name == "all":
            return TV_ALL          # the builtin used as a marker value ("all qubits")
        raise Unsupported(f"cannot materialise {v}")

    def materialise_seq(self, view, kind):
        fr = self.run.alloc(kind, self.ct.ext[kind])
        fr.length = view.length
        if view.concrete is not None:
            arr = z3.K(z3.IntSort(), S.VNone)
            for k, it in enumerate(view.concrete):
                arr = z3.Store(arr, k, self.to_tv(it).val())
            fr.arr = arr
        else:
            k = z3.Int(self.run.fresh_name("k"))
            arr = z3.Const(self.run.fresh_name("arr"), ARR)
            body = self.to_tv(view.nth(k)).val()
            self.run.assume(z3.ForAll([k], z3.Implies(z3.And(0 <= k, k < view.length), z3.Select(arr, k) == body), patterns=[z3.Select(arr, k)]))
            fr.arr = arr
        return TV(fr.term)

    # ------------------------------------------------------------------ expressions
    def eval(self, node, frame):
        m = getattr(self, "eval_" + type(node).__name__, None)
        if m is None:
            raise Unsupported(f"expression {type(node).__name__} line {getattr(node, 'lineno', '?')}")
        return m(node, frame)

    def eval_Constant(self, node, frame):
        v = node.value
        if v is None:
            return TV_NONE
        if isinstance(v, bool):
            return tv_bool(v)
        if isinstance(v, int):
            return tv_int(v)
        if isinstance(v, float):
            return tv_real(z3.RealVal(repr(v)))
        if isinstance(v, str):
            return tv_str(v)
        if v is Ellipsis:
            return TV_NONE
        raise Unsupported(f"constant {v!r}")

    def eval_Name(self, node, frame):
        name = node.id
        if frame.has(name):
            return frame.lookup(name)
        if name == "all" and not isinstance(frame.module, tuple):
            # jaqalpaq uses the builtin `all` both as a function and as a sentinel value
            return BuiltinRef("all")
        return self.resolve_global(frame, name)

    def eval_JoinedStr(self, node, frame):
        # f-strings: only used for messages and item names.  Model: concatenation of str().
        parts = []
        for v in node.values:
            if isinstance(v, ast.Constant):
                parts.append(z3.StringVal(v.value))
            else:
                try:
                    val = self.eval(v.value, frame)
                    spec = v.format_spec
                    if spec is not None:
                        fs = spec.values[0].value if (isinstance(spec, ast.JoinedStr) and len(spec.values) == 1 and isinstance(spec.values[0], ast.Constant)) else None
                        if fs == "b":
                            from . import strings
                            tv = self.to_tv(val)
                            self.implicit_raise(z3.Not(S.is_intlike(tv.val())) if tv.sort == "val" else z3.BoolVal(tv.sort not in ("int", "bool")), "ValueError", node, "format spec b")
                            self.run.uses_strlib = True
                            x = tv.as_int()
                            if self.run.merge_depth > 0 or self.run.merge_only:
                                parts.append(z3.If(x >= 0, strings.BIN_STR(x), z3.Concat(z3.StringVal("-"), strings.BIN_STR(-x))))
                            elif self.branch(x >= 0, "format-b-sign"):
                                parts.append(strings.BIN_STR(x))
                            else:
                                parts.append(z3.Concat(z3.StringVal("-"), strings.BIN_STR(-x)))
                            continue
                        raise Unsupported("format spec")
                    parts.append(self.B.str_of(self, val, frame, loose=True))
                except Unsupported:
                    # message text only: an opaque string (formatting of unsupported sub-expressions)
                    parts.append(z3.String(self.run.fresh_name("fstr")))
        if not parts:
            return tv_str("")
        if len(parts) == 1:
            return TV(parts[0], "str")
        return TV(z3.Concat(*parts), "str")

    def eval_Tuple(self, node, frame):
        items = []
        for e in node.elts:
            if isinstance(e, ast.Starred):
                items.extend(self.iter_concrete(self.eval(e.value, frame)))
            else:
                items.append(self.eval(e, frame))
        return TupleVal(items, "tuple")

    def eval_List(self, node, frame):
        items = []
        for e in node.elts:
            if isinstance(e, ast.Starred):
                sv_ = self.eval(e.value, frame)
                view = self.B.seq_view(self, sv_)
                if view.concrete is None:
                    return self._list_with_star(node, frame)
                items.extend(view.concrete)
            else:
                items.append(self.eval(e, frame))
        tv = self.to_tv(TupleVal(items, "list"))
        return tv

    def _list_with_star(self, node, frame):
        """[a, b, *xs, c] with symbolic-length xs."""
        fr = self.run.alloc("list", self.ct.ext["list"])
        fr.length = z3.IntVal(0)
        fr.arr = z3.K(z3.IntSort(), S.VNone)
        tv = TV(fr.term)
        for e in node.elts:
            if isinstance(e, ast.Starred):
                view = self.B.seq_view(self, self.eval(e.value, frame))
                self.B.list_extend(self, fr, view)
            else:
                v = self.to_tv(self.eval(e, frame)).val()
                fr.arr = z3.Store(fr.arr, fr.length, v)
                fr.length = fr.length + 1
        return tv

    def eval_Dict(self, node, frame):
        fr = self.B.new_dict(self)
        for k, v in zip(node.keys, node.values):
            if k is None:
                src = self.eval(v, frame)
                self.B.dict_update(self, fr, src)
            else:
                self.B.dict_set(self, fr, self.to_tv(self.eval(k, frame)), self.to_tv(self.eval(v, frame)))
        return TV(fr.term)

    def eval_Set(self, node, frame):
        fr = self.B.new_set(self)
        for e in node.elts:
            self.B.set_add(self, fr, self.to_tv(self.eval(e, frame)))
        return TV(fr.term)

    def eval_UnaryOp(self, node, frame):
        v = self.eval(node.operand, frame)
        if isinstance(node.op, ast.Not):
            return tv_bool(z3.Not(self.truth_of(v)))
        v = self.to_tv(v)
        if isinstance(node.op, ast.USub):
            if v.sort in ("int", "bool"):
                return tv_int(-v.as_int())
            if v.sort == "real":
                return tv_real(-v.t)
            self.B.need_numeric(self, v, node)
            return tv_val(z3.If(S.is_VReal(v.t), S.VReal(-S.rv(v.t)), S.VInt(-S.simp_iv(v.t))))
        if isinstance(node.op, ast.UAdd):
            return v
        raise Unsupported("unary op")

    def _simple_pure(self, n):
        if isinstance(n, (ast.Name, ast.Constant)):
            return True
        if isinstance(n, ast.Attribute):
            return False
        if isinstance(n, ast.Dict) and not n.keys:
            return True
        if isinstance(n, (ast.List, ast.Tuple)) and not n.elts:
            return True
        return False

    def eval_BoolOp(self, node, frame):
        merge = self.run.merge_depth > 0 or self.run.merge_only
        if not merge and all(self._simple_pure(e) for e in node.values):
            self.run.merge_depth += 1
            try:
                return self.eval_BoolOp(node, frame)
            finally:
                self.run.merge_depth -= 1
        is_and = isinstance(node.op, ast.And)
        if merge:
            vals = []
            conds = []
            pushed = 0
            try:
                for e in node.values:
                    v = self.eval(e, frame)
                    vals.append(v)
                    c = self.truth_of(v)
                    conds.append(c)
                    cs_ = z3.simplify(c)
                    if (is_and and z3.is_false(cs_)) or (not is_and and z3.is_true(cs_)):
                        # Python would not evaluate the remaining operands (they may not even make sense, e.g.
                        # `isinstance(r, tuple) and r[0] == ...` for an integer r)
                        break
                    self.run.cond_stack.append(c if is_and else z3.Not(c))
                    pushed += 1
            finally:
                for _ in range(pushed):
                    self.run.cond_stack.pop()
            if all(isinstance(v, TV) and v.sort == "bool" for v in vals):
                return tv_bool(z3.And(conds) if is_and else z3.Or(conds))
            res = vals[-1]
            for v, c in zip(reversed(vals[:-1]), reversed(conds[:-1])):
                res = self.ite(c, res, v) if is_and else self.ite(c, v, res)
            return res
        v = None
        for k, e in enumerate(node.values):
            v = self.eval(e, frame)
            if k == len(node.values) - 1:
                return v
            t = self.truth_of(v)
            b = self.branch(t, "boolop")
            if is_and and not b:
                return v
            if (not is_and) and b:
                return v
        return v

    def eval_IfExp(self, node, frame):
        c = self.truth_of(self.eval(node.test, frame))
        cs = z3.simplify(c)
        if z3.is_true(cs):
            return self.eval(node.body, frame)
        if z3.is_false(cs):
            return self.eval(node.orelse, frame)
        if self.run.merge_depth > 0 or self.run.merge_only:
            self.run.cond_stack.append(c)
            try:
                a = self.eval(node.body, frame)
            finally:
                self.run.cond_stack.pop()
            self.run.cond_stack.append(z3.Not(c))
            try:
                b = self.eval(node.orelse, frame)
            finally:
                self.run.cond_stack.pop()
            return self.ite(c, a, b)
        if self.branch(c, "ifexp"):
            return self.eval(node.body, frame)
        return self.eval(node.orelse, frame)

    def eval_Compare(self, node, frame):
        left = self.eval(node.left, frame)
        conds = []
        for op, rn in zip(node.ops, node.comparators):
            right = self.eval(rn, frame)
            conds.append(self.B.compare(self, op, left, right, node, frame))
            left = right
        if len(conds) == 1:
            return conds[0]
        return tv_bool(z3.And([c.truth() for c in conds]))

    def eval_BinOp(self, node, frame):
        a = self.eval(node.left, frame)
        b = self.eval(node.right, frame)
        return self.B.binop(self, node.op, a, b, node, frame)

    def eval_Attribute(self, node, frame):
        base = self.eval(node.value, frame)
        return self.get_attr(base, node.attr, node, frame)

    def eval_Subscript(self, node, frame):
        base = self.eval(node.value, frame)
        if isinstance(node.slice, ast.Slice):
            lo = self.eval(node.slice.lower, frame) if node.slice.lower is not None else None
            hi = self.eval(node.slice.upper, frame) if node.slice.upper is not None else None
            st = self.eval(node.slice.step, frame) if node.slice.step is not None else None
            return self.B.slice_of(self, base, lo, hi, st, node, frame)
        idx = self.eval(node.slice, frame)
        return self.B.getitem(self, base, idx, node, frame)

    def eval_Call(self, node, frame):
        return self.B.eval_call(self, node, frame)

    def eval_Lambda(self, node, frame):
        return Closure(node, frame, None, frame.cls, (frame.qualname or "") + ".<lambda>")

    def eval_ListComp(self, node, frame):
        return self.B.comprehension(self, node, frame, "list")

    def eval_GeneratorExp(self, node, frame):
        return self.B.comprehension(self, node, frame, "gen")

    def eval_DictComp(self, node, frame):
        return self.B.dict_comprehension(self, node, frame)

    def eval_Starred(self, node, frame):
        raise Unsupported("starred outside call/display")

    # ------------------------------------------------------------------ attributes
    def class_fields(self, cls):
        """Instance fields assigned via self.X anywhere in the class or its bases."""
        if not hasattr(self, "_cf_cache"):
            self._cf_cache = {}
        if cls.key in self._cf_cache:
            return self._cf_cache[cls.key]
        fields = set()
        for c in cls.mro:
            if isinstance(c, ClassInfo):
                for fi in c.methods.values():
                    for f in getattr(fi, "overloads", [fi]):
                        if not f.node.args.args:
                            continue
                        sname = f.node.args.args[0].arg
                        for n in ast.walk(f.node):
                            if isinstance(n, ast.Attribute) and isinstance(n.ctx, ast.Store) and isinstance(n.value, ast.Name) and n.value.id == sname:
                                fields.add(n.attr)
        self._cf_cache[cls.key] = fields
        return fields

    def classes_with_field(self, name):
        return [c for c in self.ct.all_classes() if name in self.class_fields(c)]

    def candidates_for_attr(self, name):
        """Repo classes (concrete) on which `name` resolves, grouped by what it resolves to."""
        groups = {}
        for c in self.ct.all_classes():
            r = c.lookup(name)
            if r is not None:
                key = ("m", id(r[2])) if r[0] == "method" else (("a", id(r[2])) if r[0] == "attr" else ("e", r[1].key))
                groups.setdefault(key, (r, []))[1].append(c)
            elif name in self.class_fields(c):
                groups.setdefault(("f", name), ((("field", None, name)), []))[1].append(c)
        return list(groups.values())

    def get_attr(self, base, attr, node=None, frame=None):
        run = self.run
        if isinstance(base, PyObj):
            return self.B.pyobj_attr(self, base, attr, node, frame)
        base = self.to_tv(base)
        if base.sort != "val":
            return self.B.prim_attr(self, base, attr, node, frame)
        t = base.t
        # ite distribution when a branch is a fresh object
        if z3.is_app(t) and t.decl().kind() == z3.Z3_OP_ITE and (run.mentions_fresh(t.arg(1)) or run.mentions_fresh(t.arg(2))):
            c = t.arg(0)
            if run.merge_depth > 0 or run.merge_only:
                a = self.get_attr(tv_val(t.arg(1)), attr, node, frame)
                b = self.get_attr(tv_val(t.arg(2)), attr, node, frame)
                return self.ite(c, a, b)
            if self.branch(c, "ite-attr"):
                return self.get_attr(tv_val(t.arg(1)), attr, node, frame)
            return self.get_attr(tv_val(t.arg(2)), attr, node, frame)
        sc = self.static_class(base)
        if sc is not None:
            return self.get_attr_on_class(base, sc, attr, node, frame)
        if z3.is_app(t) and t.decl().eq(S.VEnum):
            return self.B.enum_attr(self, base, attr, node, frame)
        # unknown class: group candidate classes
        groups = self.candidates_for_attr(attr)
        ext_groups = self.B.external_attr_groups(self, attr)
        if (attr.startswith("_") and frame is not None and isinstance(frame_module_of(frame), tuple) and groups and not ext_groups
                and all(r[0] == "field" for r, _ in groups)):
            # inside a specification a private name that is a plain instance field on every class that has it reads
            # that field: no class case split, no feasibility queries (clauses have no implicit exceptions)
            return self.read_field(base, attr)
        allc = []
        results = []
        for (r, classes) in groups:
            cond = self.isinstance_exact(t, classes)
            allc.append(cond)
            results.append((cond, r, classes))
        for (cond_fn, handler) in ext_groups:
            cond = cond_fn(t)
            allc.append(cond)
            results.append((cond, ("ext", handler), None))
        anyc = z3.Or(allc) if allc else z3.BoolVal(False)
        # AttributeError when no candidate fits
        self.implicit_raise(z3.Not(anyc), "AttributeError", node, f"attribute {attr}")
        live = []
        for cond, r, classes in results:
            if run.quick_feasible(cond):
                live.append((cond, r, classes))
        if not live:
            if run.merge_depth > 0 or run.merge_only:
                # no class is known to have this attribute (dead context, or a field only ever set from
                # outside its class): read it as a plain field
                return self.read_field(base, attr)
            return self.dead_value()
        if len(live) == 1:
            cond, r, classes = live[0]
            return self._attr_group(base, r, classes, attr, node, frame)
        # evaluate all; if syntactically equal merge silently
        merge = run.merge_depth > 0 or run.merge_only
        if merge:
            vals = []
            for cond, r, classes in live:
                run.cond_stack.append(cond)
                try:
                    vals.append((cond, self._attr_group(base, r, classes, attr, node, frame)))
                finally:
                    run.cond_stack.pop()
            data = [(c_, v_) for c_, v_ in vals if not isinstance(v_, BoundMethod)]
            if data and len(data) < len(vals) and isinstance(frame_module_of(frame), tuple):
                vals = data     # specifications read data attributes, never bound methods
            res = vals[-1][1]
            try:
                for cond, v in reversed(vals[:-1]):
                    res = self.ite(cond, v, res)
            except Unsupported as ex:
                raise Unsupported(f"{ex} (attribute .{attr} on a value of unknown class: {[c.name for _, _, cl in live for c in (cl or [])][:8]})")
            return res
        # exec mode: try cheap merge for plain fields/properties first
        try:
            run.merge_depth += 1
            saved_facts = len(run.facts)
            vals = []
            for cond, r, classes in live:
                run.cond_stack.append(cond)
                try:
                    vals.append((cond, self._attr_group(base, r, classes, attr, node, frame)))
                finally:
                    run.cond_stack.pop()
            res = vals[-1][1]
            for cond, v in reversed(vals[:-1]):
                res = self.ite(cond, v, res)
            return res
        except Unsupported:
            del run.facts[saved_facts:]
        finally:
            run.merge_depth -= 1
        idx = run.choose(len(live), [c for c, _, _ in live], f"attr {attr}")
        cond, r, classes = live[idx]
        run.assume(cond)
        return self._attr_group(base, r, classes, attr, node, frame)

    def isinstance_exact(self, t, classes):
        ids = sorted({self.clsid(c) for c in classes})
        co = self.cls_of(t)
        if z3.is_int_value(co):
            return z3.BoolVal(co.as_long() in ids)
        enum_ids = {self.class_ids[k] for k in self.enum_ids}
        return z3.Or([z3.And(co == i, S.is_VEnum(t)) if i in enum_ids else co == i for i in ids])

    def _attr_group(self, base, r, classes, attr, node, frame):
        kind = r[0]
        if kind == "method":
            fi = r[2]
            if fi.kind == "property":
                run = self.run
                if run.prop_depth >= 4:
                    # chains like x.name -> x._gate_def.name -> ... on values of unknown class:
                    # cut off with an unconstrained value (a weaker fact, never an unsound one)
                    return tv_val(S.fld("@prop_" + attr)(base.t))
                run.prop_depth += 1
                try:
                    return self.call_function(fi, [base], {}, self_cls=classes[0] if classes else None, node=node)
                finally:
                    run.prop_depth -= 1
            return BoundMethod(base, attr, candidates=[(classes, fi)])
        if kind == "attr":
            owner, expr = r[1], r[2]
            # class attribute unless shadowed by an instance field
            if attr in self.class_fields(classes[0]):
                return self.read_field(base, attr)
            return self.class_attr_value(owner, attr, expr)
        if kind == "field":
            return self.read_field(base, attr)
        if kind == "external":
            if attr in getattr(r[1], "data", ()):
                return self.read_field(base, attr)
            return BoundMethod(base, attr)
        if kind == "ext":
            return r[1](base)
        raise Unsupported(f"attr kind {kind}")

    def get_attr_on_class(self, base, cls, attr, node, frame):
        fr = self.run.fresh_of(base.t)
        if fr is not None and fr.kind != "obj":
            return BoundMethod(base, attr)
        if isinstance(cls, ExternalClass):
            return self.B.external_attr(self, base, cls, attr, node, frame)
        if fr is not None and attr in fr.fields:
            return tv_val(fr.fields[attr]) if not isinstance(fr.fields[attr], PyObj) else fr.fields[attr]
        r = cls.lookup(attr)
        if r is None:
            if attr in self.class_fields(cls):
                if fr is not None:
                    # field not set yet on a fresh object
                    self.implicit_raise(z3.BoolVal(True), "AttributeError", node, f"unset field {attr}")
                    return self.dead_value()
                return self.read_field(base, attr)
            if fr is None and attr.startswith("_") and not attr.startswith("__"):
                # a private field this class never assigns itself (set from outside, e.g. Readout._subcircuit)
                self.run.assumptions_used.add(f"field {cls.name}.{attr} is set by its users before it is read")
                return self.read_field(base, attr)
            self.implicit_raise(z3.BoolVal(True), "AttributeError", node, f"no attribute {attr} on {cls.name}")
            return self.dead_value()
        if r[0] == "method":
            fi = r[2]
            if fi.kind == "property":
                return self.call_function(fi, [base], {}, self_cls=cls, node=node)
            return BoundMethod(base, attr, candidates=[([cls], fi)])
        if r[0] == "attr":
            if attr in self.class_fields(cls):
                if fr is None:
                    return self.read_field(base, attr)
            return self.class_attr_value(r[1], attr, r[2])
        if r[0] == "external":
            if attr in getattr(r[1], "data", ()):
                return self.read_field(base, attr)
            return BoundMethod(base, attr)
        raise Unsupported("attr")

    def read_field(self, base, attr):
        run = self.run
        t = base.t
        fr = run.fresh_of(t)
        if fr is not None:
            if attr in fr.fields:
                v = fr.fields[attr]
                return v if isinstance(v, PyObj) else tv_val(v)
            raise Unsupported(f"read of unset field {attr} on fresh object")
        # modifies-overlay and possibly aliased unfrozen fresh objects
        res = S.fld(attr)(t)
        if not run.is_inworld(t):
            for f2 in run.fresh.values():
                if f2.kind == "obj" and not f2.frozen and attr in f2.fields and not isinstance(f2.fields[attr], PyObj):
                    res = z3.If(t == f2.term, f2.fields[attr], res)
        for (ot, fa), val in run.overlay.items():
            if fa == attr:
                o = run.overlay_terms[(ot, fa)]
                if o.eq(t):
                    res = val
                else:
                    res = z3.If(t == o, val, res)
        return tv_val(res)

    def set_attr(self, base, attr, value, node, frame):
        run = self.run
        if isinstance(base, PyObj):
            raise Unsupported("setattr on python-side object")
        t = base.t
        fr = run.fresh_of(t)
        run.stores_checked += 1
        if fr is not None and fr.kind == "obj":
            if fr.frozen:
                raise Unsupported("write to frozen fresh object")
            fr.fields[attr] = value if isinstance(value, (Closure,)) else self.to_tv(value).val()
            return
        # in-world object: must be allowed by the frame
        if run.modifies_allows(t, attr):
            key = (t.get_id(), attr)
            run.overlay[key] = self.to_tv(value).val()
            run.overlay_terms[key] = t
            return
        run.obligation("frame", z3.BoolVal(False), node, note=f"store to .{attr} of an object that is neither fresh nor in modifies")
        raise PathEnd()

    # ------------------------------------------------------------------ implicit raises
    def implicit_raise(self, cond, excname, node, what=""):
        """If `cond` can hold, the statement raises `excname`.  In exec mode with exception
        tracking the path forks; otherwise the condition is assumed away (and counted)."""
        run = self.run
        cs = z3.simplify(cond)
        if z3.is_false(cs):
            return
        if run.spec_depth > 0:
            return      # specifications are total: guards are the author's responsibility
        if run.merge_depth > 0 or run.merge_only:
            if run.track_exc and not run.merge_only:
                run.merge_raises.append((z3.And(run.cond_stack + [cond]) if run.cond_stack else cond, self.ct.ext[excname]))
            return
        if not run.track_exc and not run.try_depth:
            # partial-correctness view: the exceptional exit is not under contract
            if run.quick_feasible(z3.Not(cond)):
                run.assume(z3.Not(cond))
                run.unchecked_implicit += 1
                return
            raise PathEnd()
        if self.branch(cond, f"implicit {excname}"):
            raise PyRaise(self.new_exception(excname), self.ct.ext[excname],
                          where=(getattr(node, "lineno", None), what + " in " + (run.inline_stack[-1] if run.inline_stack else "?")))

    def dead_value(self):
        """Reached where execution cannot continue: in merged expressions (dead guard) any value
        will do; on an executed path the path ends."""
        if self.run.merge_depth > 0 or self.run.merge_only:
            return tv_val(z3.Const(self.run.fresh_name("dead"), S.Val))
        raise Infeasible()

    def new_exception(self, excname, args=()):
        cls = self.ct.ext[excname] if isinstance(excname, str) else excname
        fr = self.run.alloc("obj", cls)
        return TV(fr.term)

    # ------------------------------------------------------------------ assignment
    def assign_target(self, target, value, frame):
        if isinstance(target, ast.Name):
            frame.vars[target.id] = value
            return
        if isinstance(target, (ast.Tuple, ast.List)):
            items = self.unpack(value, len(target.elts), target)
            for t, v in zip(target.elts, items):
                if isinstance(t, ast.Starred):
                    raise Unsupported("starred assignment target")
                self.assign_target(t, v, frame)
            return
        if isinstance(target, ast.Attribute):
            base = self.eval(target.value, frame)
            self.set_attr(base, target.attr, value, target, frame)
            return
        if isinstance(target, ast.Subscript):
            base = self.eval(target.value, frame)
            if isinstance(target.slice, ast.Slice):
                self.B.setslice(self, base, target.slice, value, target, frame)
                return
            idx = self.eval(target.slice, frame)
            self.B.setitem(self, base, idx, value, target, frame)
            return
        raise Unsupported(f"assignment target {type(target).__name__}")

    def unpack(self, value, n, node):
        if isinstance(value, TupleVal):
            if len(value.items) != n:
                self.implicit_raise(z3.BoolVal(True), "ValueError", node, "unpack")
                return self.dead_value()
            return value.items
        view = self.B.seq_view(self, value)
        if view.concrete is not None:
            if len(view.concrete) != n:
                self.implicit_raise(z3.BoolVal(True), "ValueError", node, "unpack")
                return self.dead_value()
            return list(view.concrete)
        self.implicit_raise(view.length != n, "ValueError", node, "unpack")
        return [view.nth(z3.IntVal(k)) for k in range(n)]

    def iter_concrete(self, value):
        if isinstance(value, TupleVal):
            return value.items
        view = self.B.seq_view(self, value)
        if view.concrete is not None:
            return list(view.concrete)
        ln = z3.simplify(view.length)
        if z3.is_int_value(ln):
            return [view.nth(z3.IntVal(k)) for k in range(ln.as_long())]
        raise Unsupported("iteration over symbolic-length sequence needs a concrete length here")

    # ------------------------------------------------------------------ statements
    def exec_block(self, stmts, frame):
        for s in stmts:
            self.exec_stmt(s, frame)

    def exec_stmt(self, s, frame):
        m = getattr(self, "exec_" + type(s).__name__, None)
        if m is None:
            raise Unsupported(f"statement {type(s).__name__} line {s.lineno}")
        self.run.cur_line = s.lineno
        return m(s, frame)

    def exec_Expr(self, s, frame):
        if isinstance(s.value, ast.Constant):
            return
        if isinstance(s.value, (ast.Yield, ast.YieldFrom)):
            return self.B.exec_yield(self, s.value, frame)
        self.eval(s.value, frame)

    def exec_Pass(self, s, frame):
        return

    def exec_Assign(self, s, frame):
        v = self.eval(s.value, frame)
        for t in s.targets:
            self.assign_target(t, v, frame)

    def exec_AnnAssign(self, s, frame):
        if s.value is not None:
            self.assign_target(s.target, self.eval(s.value, frame), frame)

    def exec_AugAssign(self, s, frame):
        if isinstance(s.target, ast.Name):
            cur = self.eval(ast.Name(id=s.target.id, ctx=ast.Load()), frame)
            new = self.B.binop(self, s.op, cur, self.eval(s.value, frame), s, frame, inplace=True)
            if new is not None:
                frame.vars[s.target.id] = new
            return
        if isinstance(s.target, ast.Attribute):
            base = self.eval(s.target.value, frame)
            cur = self.get_attr(base, s.target.attr, s.target, frame)
            new = self.B.binop(self, s.op, cur, self.eval(s.value, frame), s, frame, inplace=True)
            if new is not None:
                self.set_attr(base, s.target.attr, new, s.target, frame)
            return
        if isinstance(s.target, ast.Subscript):
            base = self.eval(s.target.value, frame)
            idx = self.eval(s.target.slice, frame)
            cur = self.B.getitem(self, base, idx, s.target, frame)
            new = self.B.binop(self, s.op, cur, self.eval(s.value, frame), s, frame, inplace=True)
            if new is not None:
                self.B.setitem(self, base, idx, new, s.target, frame)
            return
        raise Unsupported("augassign target")

    def exec_Return(self, s, frame):
        raise ReturnSig(self.eval(s.value, frame) if s.value is not None else TV_NONE)

    def exec_If(self, s, frame):
        c = self.truth_of(self.eval(s.test, frame))
        if self.branch(c, f"if@{s.lineno}"):
            self.exec_block(s.body, frame)
        else:
            self.exec_block(s.orelse, frame)

    def exec_Raise(self, s, frame):
        if s.exc is None:
            if self.run.handling:
                raise self.run.handling[-1]
            raise Unsupported("bare raise outside handler")
        v = self.eval(s.exc, frame)
        if isinstance(v, ClassRef):
            v = self.B.instantiate(self, v.cls, [], {}, s, frame)
        v = self.to_tv(v)
        cls = self.static_class(v)
        if cls is None:
            raise Unsupported("raise of value with unknown class")
        raise PyRaise(v, cls, where=(s.lineno, "raise"))

    def exec_Assert(self, s, frame):
        c = self.truth_of(self.eval(s.test, frame))
        self.implicit_raise(z3.Not(c), "AssertionError", s, "assert")

    def exec_Try(self, s, frame):
        run = self.run
        run.try_depth += 1
        try:
            try:
                try:
                    self.exec_block(s.body, frame)
                finally:
                    run.try_depth -= 1
            except PyRaise as pr:
                for h in s.handlers:
                    if h.type is None:
                        match = True
                    else:
                        tv = self.eval(h.type, frame)
                        hs = list(tv.items if isinstance(tv, TupleVal) else [tv])
                        if any(isinstance(c, BuiltinRef) and c.name in ("Exception", "BaseException") for c in hs):
                            match = True       # every exception the engine models derives from Exception
                        else:
                            classes = [c.cls for c in hs]
                            match = any(pr.cls.is_subclass_of(c) for c in classes)
                    if match:
                        if h.name:
                            frame.vars[h.name] = pr.exc
                        run.handling.append(pr)
                        try:
                            self.exec_block(h.body, frame)
                        finally:
                            run.handling.pop()
                        break
                else:
                    raise
            else:
                self.exec_block(s.orelse, frame)
        finally:
            if s.finalbody:
                self.exec_block(s.finalbody, frame)

    def exec_FunctionDef(self, s, frame):
        frame.vars[s.name] = Closure(s, frame, None, frame.cls, (frame.qualname or "") + ".<locals>." + s.name)

    def exec_Import(self, s, frame):
        for a in s.names:
            frame.vars[(a.asname or a.name).split(".")[0]] = ModuleRef(a.name if a.asname else a.name.split(".")[0])

    def exec_ImportFrom(self, s, frame):
        f = frame
        while f is not None and f.module is None:
            f = f.parent
        modname = f.module
        base = s.module or ""
        if s.level:
            pkg = modname.split(".")
            if not getattr(self.ct.modules[modname], "is_pkg", False):
                pkg = pkg[:-1]
            if s.level > 1:
                pkg = pkg[: len(pkg) - (s.level - 1)]
            base = ".".join(pkg + ([s.module] if s.module else []))
        for a in s.names:
            if base in self.ct.modules:
                r = self.ct.resolve_name(base, a.name)
                if r is None:
                    raise Unsupported(f"import {a.name} from {base}")
                frame.vars[a.asname or a.name] = self._wrap_resolved(r, base, a.name)
            else:
                frame.vars[a.asname or a.name] = self._wrap_resolved(self.ct._external_name(base, a.name), base, a.name)

    def exec_Break(self, s, frame):
        raise BreakSig()

    def exec_Continue(self, s, frame):
        raise ContinueSig()

    def exec_Delete(self, s, frame):
        for t in s.targets:
            if isinstance(t, ast.Subscript):
                base = self.eval(t.value, frame)
                idx = self.eval(t.slice, frame)
                self.B.delitem(self, base, idx, t, frame)
            elif isinstance(t, ast.Attribute):
                base = self.eval(t.value, frame)
                self.B.delattr(self, base, t.attr, t, frame)
            else:
                raise Unsupported("del target")

    def exec_For(self, s, frame):
        return self.B.exec_for(self, s, frame)

    def exec_While(self, s, frame):
        return self.B.exec_while(self, s, frame)

    def exec_With(self, s, frame):
        return self.B.exec_with(self, s, frame)

    def exec_Global(self, s, frame):
        raise Unsupported("global statement")

    # ------------------------------------------------------------------ calls into repo functions
    def bind_args(self, fnode, args, kwargs, frame_for_defaults, self_val=None, what=""):
        """Bind python call arguments to a FunctionDef/Lambda signature. Returns dict."""
        a = fnode.args
        params = [p.arg for p in a.args]
        bound = {}
        args = list(args)
        if self_val is not None:
            args = [self_val] + args
        if len(args) > len(params) and a.vararg is None:
            raise Unsupported(f"too many positional args calling {what}")
        for p, v in zip(params, args):
            bound[p] = v
        if a.vararg is not None:
            rest = args[len(params):]
            if len(rest) == 1 and isinstance(rest[0], self.B.StarArgs):
                # f(*xs) with xs symbolic: the callee's *args is that sequence (as a tuple value)
                sv_ = self.to_tv(rest[0].seq)
                bound[a.vararg.arg] = sv_
            else:
                bound[a.vararg.arg] = TupleVal(rest, "tuple")
        kwargs = dict(kwargs)
        if "**" in kwargs:
            fwd = kwargs.pop("**")
            if a.kwarg is None or kwargs:
                raise Unsupported(f"**mapping forwarded to {what}")
            bound[a.kwarg.arg] = self.to_tv(fwd)
            kwargs = {}
            a_kwarg_done = True
        else:
            a_kwarg_done = False
        for p in params[len(args):]:
            if p in kwargs:
                bound[p] = kwargs.pop(p)
        for p in [k.arg for k in a.kwonlyargs]:
            if p in kwargs:
                bound[p] = kwargs.pop(p)
        if a.kwarg is not None and not a_kwarg_done:
            d = self.B.new_dict(self)
            for k, v in kwargs.items():
                self.B.dict_set(self, d, tv_str(k), self.to_tv(v))
            bound[a.kwarg.arg] = TV(d.term)
            kwargs = {}
        if kwargs:
            raise Unsupported(f"unexpected keyword args {list(kwargs)} calling {what}")
        # defaults
        nd = len(a.defaults)
        for k, p in enumerate(params):
            if p not in bound:
                di = k - (len(params) - nd)
                if di < 0:
                    raise Unsupported(f"missing argument {p} calling {what}")
                bound[p] = self.eval(a.defaults[di], frame_for_defaults)
        for p, d in zip(a.kwonlyargs, a.kw_defaults):
            if p.arg not in bound:
                if d is None:
                    raise Unsupported(f"missing kw-only argument {p.arg} calling {what}")
                bound[p.arg] = self.eval(d, frame_for_defaults)
        return bound

    def call_function(self, fi, args, kwargs, self_cls=None, node=None, force_inline=False):
        """Call a repo function: through its contract when it has one, else inlined."""
        run = self.run
        key = fi.key
        contract = None if force_inline else self.contract_at_call(fi, self_cls)
        if contract is not None and not (run.verifying_key == self._ck(fi) and run.depth == 0 and False):
            return self.call_via_contract(fi, contract, args, kwargs, node)
        if fi.is_generator:
            raise Unsupported(f"generator {key} called outside a for loop")
        if run.depth > 12:
            raise Unsupported(f"inline depth exceeded at {key}")
        if key in run.inline_stack:
            if fi.kind == "property" and args:
                # x.name -> x._gate_def.name -> ... on a value of unknown class: cut the chain with an
                # unconstrained value (weaker knowledge, never unsound)
                return tv_val(S.fld("@prop_" + fi.name)(self.to_tv(args[0]).val()))
            raise Unsupported(f"recursive call to uncontracted function {key}")
        modframe = Frame({}, module=fi.module, cls=fi.cls)
        bound = self.bind_args(fi.node, args, kwargs, modframe, what=key)
        frame = Frame(bound, module=fi.module, cls=fi.cls, fi=fi)
        frame.qualname = fi.qualname
        if fi.cls is not None and fi.kind in ("method", "property") and fi.node.args.args:
            frame.self_val = bound[fi.node.args.args[0].arg]
        return self.run_body(fi.node.body, frame, key)

    def run_body(self, body, frame, key):
        run = self.run
        if run.merge_depth > 0 or run.merge_only:
            r = self.merge_block(body, frame)
            return r if r is not None else TV_NONE
        run.depth += 1
        run.inline_stack.append(key)
        try:
            self.exec_block(body, frame)
            return TV_NONE
        except ReturnSig as r:
            return r.value
        finally:
            run.depth -= 1
            run.inline_stack.pop()

    def call_closure(self, clo, args, kwargs, node=None):
        defframe = clo.frame_id if isinstance(clo.frame_id, Frame) else None
        fnode = clo.node
        bound = self.bind_args(fnode, args, kwargs, defframe, what=clo.qualname)
        frame = Frame(bound, module=None, cls=clo.cls, parent=defframe)
        frame.qualname = clo.qualname
        # contract on a nested function?
        ckey = self.closure_contract_key(clo)
        if ckey is not None:
            c = self.cs.contract_for(ckey)
            if c is not None:
                b2 = dict(bound)
                for m in c.methods.values():
                    for p in m.args.args:
                        if p.arg not in b2 and p.arg not in ("result", "_k") and defframe is not None and defframe.has(p.arg):
                            b2[p.arg] = defframe.lookup(p.arg)
                return self.call_via_contract(None, c, args, kwargs, node, closure=clo, bound=b2)
        if isinstance(fnode, ast.Lambda):
            return self.eval(fnode.body, frame)
        return self.run_body(fnode.body, frame, clo.qualname)

    def closure_contract_key(self, clo):
        f = clo.frame_id
        while f is not None and f.module is None:
            f = f.parent
        if f is None or isinstance(f.module, tuple) or not clo.qualname:
            return None
        mod = f.module
        return f"{mod}:{clo.qualname}"

    def _norm(self, key):
        from .contracts import _norm
        return _norm(key)

    def _ck(self, fi):
        return self._norm(fi.key)

    def contract_at_call(self, fi, self_cls):
        c = self.cs.contract_for(fi.key + (f"#{fi.ordinal}" if hasattr(fi, "ordinal") else ""))
        return c

    # ------------------------------------------------------------------ contracts at call sites
    def eval_clause(self, cinfo, fnode, bindings, pre_run_state=None, extra=None):
        """Evaluate a contract clause (a method of the contract class) in merge mode."""
        run = self.run
        names = [a.arg for a in fnode.args.args]
        vars_ = {}
        for n in names:
            if n in bindings:
                vars_[n] = bindings[n]
            elif extra and n in extra:
                vars_[n] = extra[n]
            else:
                raise Unsupported(f"contract {cinfo.key}.{fnode.name}: no binding for parameter {n}")
        frame = Frame(vars_, module=("contracts", cinfo.module))
        frame.qualname = f"{cinfo.name}.{fnode.name}"
        run.merge_depth += 1
        run.spec_depth += 1
        saved_old = run.old_state
        run.old_state = pre_run_state
        try:
            r = self.merge_block(fnode.body, frame)
        finally:
            run.merge_depth -= 1
            run.spec_depth -= 1
            run.old_state = saved_old
        if r is None:
            raise Unsupported(f"clause {fnode.name} of {cinfo.key} has no return")
        return r

    def call_via_contract(self, fi, c, args, kwargs, node, closure=None, bound=None):
        run = self.run
        if bound is None:
            modframe = Frame({}, module=fi.module, cls=fi.cls)
            bound = self.bind_args(fi.node, args, kwargs, modframe, what=fi.key)
        # values handed to a callee escape: freeze fresh objects not listed as modified
        bound = {k: (v if isinstance(v, (Closure, FuncRef, BoundMethod, ClassRef, ModuleRef, BuiltinRef)) else self.to_tv(v)) for k, v in bound.items()}
        mods = c.modifies()
        mod_params = {m.split(".")[0] for m in mods}
        for k, v in bound.items():
            if isinstance(v, TV) and k not in mod_params:
                run.freeze_value(v)
        ghosts = {}
        for g in c.ghost():
            ghosts[g] = TV(z3.Const(run.fresh_name(f"ghost_{g}"), S.Val))
        line = getattr(node, "lineno", None)
        tag = f"{c.key.split(':')[1]}@{line}"
        # precondition
        req = c.requires()
        eq_domain = None
        if req is not None and not run.merge_only:
            pre = self.eval_clause(c, req, bound, extra=ghosts).truth()
            guard = z3.And(run.cond_stack) if run.cond_stack else None
            if fi is not None and fi.name == "__eq__":
                # `a == b` may reach any repository __eq__ with operands outside the domain its contract was verified
                # on (a harmless comparison with a number, say).  That is not an error of the caller: no obligation is
                # generated; the postconditions are only assumed where the domain holds, elsewhere the result is an
                # unknown value.  Assumption (listed): outside its verified domain an __eq__ raises nothing beyond the
                # contract's raises_only.
                eq_domain = pre
                run.assumptions_used.add("== dispatched to a repository __eq__ outside that method's verified domain yields an unknown "
                                         "result and raises nothing beyond the contract's raises_only")
            else:
                run.obligation("pre@call", z3.Implies(guard, pre) if guard is not None else pre, node, name=tag)
                run.assume(z3.Implies(guard, pre) if guard is not None else pre)
        # termination of recursion
        dec = c.decreases()
        if dec is not None and run.own_contract is not None and run.own_contract.decreases() is not None and \
                (self._norm(c.key) == run.verifying_key or self._norm(c.key) in run.own_contract.attrs.get("rec_group", ())):
            m_callee = self.eval_clause(c, dec, bound).as_int()
            m_own = run.own_measure
            run.obligation("decreases", z3.And(m_callee >= 0, m_callee < m_own), node, name=tag)
        pre_state = run.snapshot_state()
        # exceptional outcomes
        rs = c.raises()
        ro = c.raises_only()
        outcomes = [("normal", None, None)]
        normal_facts = []
        for (ename, mode, fn) in rs:
            cond = self.eval_clause(c, fn, bound, extra=ghosts).truth()
            ecls = self._exc_class(ename)
            outcomes.append(("raise", ecls, cond))
            if mode == "iff":
                normal_facts.append(z3.Not(cond))
        listed = {self._exc_class(e).key for (e, _, _) in rs}
        if ro is not None:
            for e in ro:
                ecls = self._exc_class(e)
                if ecls.key not in listed:
                    outcomes.append(("raise", ecls, None))
        elif not rs or True:
            if ro is None:
                outcomes.append(("raise", self.ct.ext["Exception"], None))
        merge = run.merge_depth > 0 or run.merge_only
        if merge:
            for kind, ecls, cond in outcomes[1:]:
                if cond is not None:
                    run.merge_raises.append((z3.And(run.cond_stack + [cond]) if run.cond_stack else cond, ecls))
                else:
                    run.merge_raises.append((None, ecls))
            choice = 0
        elif run.track_exc or run.try_depth:
            conds = [z3.And(normal_facts) if normal_facts else z3.BoolVal(True)] + [(cnd if cnd is not None else z3.BoolVal(True)) for _, _, cnd in outcomes[1:]]
            choice = run.choose(len(outcomes), conds, f"call {tag}")
        else:
            choice = 0
            if len(outcomes) > 1:
                run.unchecked_implicit += 1
        kind, ecls, cond = outcomes[choice]
        if kind == "raise":
            if cond is not None:
                run.assume(cond)
            raise PyRaise(self.new_exception(ecls), ecls, where=(line, f"callee {c.key}"))
        guard = z3.And(run.cond_stack) if run.cond_stack else None
        for nf in normal_facts:
            run.assume(z3.Implies(guard, nf) if guard is not None else nf)
        # havoc what the callee may modify
        for m in mods:
            self.havoc_path(m, bound, check_frame=True)
        # result
        is_init = fi is not None and fi.name == "__init__"
        res = TV(z3.Const(run.fresh_name("res_" + c.key.split(":")[1].replace(".", "_")), S.Val))
        run.bump_alloc()
        b2 = dict(bound)
        b2["result"] = res
        for (ename, fn) in c.ensures():
            post = self.eval_clause(c, fn, b2, pre_run_state=pre_state, extra=ghosts).truth()
            if eq_domain is not None:
                post = z3.Implies(eq_domain, post)
            run.assume(z3.Implies(guard, post) if guard is not None else post)
        return res

    def _exc_class(self, name):
        if name in self.ct.ext:
            return self.ct.ext[name]
        return self.ct.find_class(name)

    def havoc_path(self, m, bound, check_frame=False):
        """m like 'self.index' or 'indices' (a container parameter)."""
        run = self.run
        parts = m.split(".")
        base = bound[parts[0]]
        if len(parts) == 1:
            fr = run.fresh_of(base.t)
            if fr is None:
                if check_frame and not run.container_allowed(base.t):
                    run.obligation("frame", z3.BoolVal(False), None, name=f"callee-modifies-{m}",
                                   note=f"a callee mutates the container passed as {m}, which is neither fresh nor in this function's modifies clause")
                run.havoc_world_container(base.t)
                return
            self.B.havoc_fresh(self, fr)
            return
        t = base.t
        for p in parts[1:-1]:
            t = self.read_field(tv_val(t), p).t
        attr = parts[-1]
        fr = run.fresh_of(t)
        newv = z3.Const(run.fresh_name("hv_" + attr), S.Val)
        if fr is not None:
            fr.fields[attr] = newv
        else:
            if check_frame and not run.modifies_allows(t, attr):
                # the callee may write a field of an object that is neither fresh nor in OUR modifies clause
                run.obligation("frame", z3.BoolVal(False), None, name=f"callee-modifies-{m}",
                               note=f"a callee's modifies clause ({m}) reaches an object this function may not modify")
            key = (t.get_id(), attr)
            run.overlay[key] = newv
            run.overlay_terms[key] = t


class Run:
    """State of one path."""

    def __init__(self, eng, prefix, merge_only=False):
        self.eng = eng
        self.prefix = list(prefix)
        self.cursor = 0
        self.decisions = []
        self.alternatives = []
        self.facts = []
        self.fresh = {}
        self.fresh_ids = {}
        self.alloc_ptr = S.ALLOC0
        self.alloc_epoch = 0
        self.overlay = {}
        self.overlay_terms = {}
        self.exact_cls = {}
        self.obligations = []
        self.merge_depth = 0
        self.merge_only = merge_only
        self.cond_stack = []
        self.merge_raises = []
        self.track_exc = False
        self.try_depth = 0
        self.handling = []
        self.depth = 0
        self.inline_stack = []
        self.verifying_key = None
        self.own_contract = None
        self.own_measure = None
        self.old_state = None
        self.unchecked_implicit = 0
        self.counter_n = 0
        self.name_prefix = ""
        self.skolem_stack = []
        self.assumptions_used = set()
        self.rev_pairs = []
        self.zfill_terms = []
        self.binval_terms = []
        self.world_lists = {}
        self.root_bindings = {}
        self.func_attrs = {}
        self.inc = None
        self.deadline = None
        self.prop_depth = 0
        self.spec_depth = 0
        self.yield_stack = []
        self.stores_checked = 0
        self.cur_line = None
        self.modifies = ()
        self.mod_bound = {}
        self.closures = {}
        self.inworld_cache = {}
        self.prop = ""
        self.fkey = ""
        self.world_havoc = {}

    def fresh_name(self, base):
        self.counter_n += 1
        return f"{self.name_prefix}{base}!{self.counter_n - 1}"

    def peek_counter(self):
        return self.counter_n

    def world_list_state(self, t):
        st = self.world_lists.get(t.get_id())
        if st is None:
            arr = z3.Const(self.fresh_name("wl_arr"), ARR)
            k = z3.Int(self.fresh_name("wl_k"))
            self.assume(z3.ForAll([k], z3.Select(arr, k) == S.seq_nth(t, k), patterns=[z3.Select(arr, k)]))
            self.assume(S.seq_len(t) >= 0)
            st = self.world_lists[t.get_id()] = {"term": t, "len": S.seq_len(t), "arr": arr}
        return st

    def world_dict_state(self, t, create=False):
        """Mutable state of a world dict listed in `modifies` (stored next to the world lists, so that old() and the
        pre-state evaluation swap it together with them)."""
        key = -t.get_id() - 1
        st = self.world_lists.get(key)
        if st is None and create:
            xk = z3.Const(self.fresh_name("wd_k"), S.Val)
            xi = z3.Int(self.fresh_name("wd_i"))
            ln = S.seq_len(S.dict_keys(t))
            self.assume(ln >= 0)
            st = self.world_lists[key] = {"term": t, "dict": True, "len": ln,
                                         "has": z3.Lambda([xk], S.dict_has(t, xk)), "get": z3.Lambda([xk], S.dict_get(t, xk)),
                                         "arr": z3.Lambda([xi], S.seq_nth(S.dict_keys(t), xi))}
        return st

    def world_list_assign(self, t, view):
        st = self.world_list_state(t)
        fr = Fresh(-1, "list", None, None)
        fr.length = z3.IntVal(0)
        fr.arr = z3.K(z3.IntSort(), S.VNone)
        self.eng.B.list_extend(self.eng, fr, view)
        st["len"], st["arr"] = fr.length, fr.arr

    def func_attr_has(self, fn, attr):
        raise Unsupported("function attributes")

    def assume(self, fact):
        fs = z3.simplify(fact) if False else fact
        if z3.is_true(fs):
            return
        self.facts.append(fs)

    def quick_feasible(self, cond, strong=False):
        cs = z3.simplify(cond)
        if z3.is_false(cs):
            return False
        if self.cond_stack:
            cond = z3.And(self.cond_stack + [cond])
        elif z3.is_true(cs):
            return True
        ok = self.eng.feasible(self.facts, cond)
        if ok and strong:
            ok = self.eng.feasible_strong(self.facts, cond)
        return ok

    def choose(self, n, conds, what):
        """Pick one of n alternatives (each with a z3 condition)."""
        if self.cursor < len(self.prefix):
            idx = self.prefix[self.cursor]
            self.cursor += 1
            self.decisions.append(idx)
            return idx
        if self.deadline is not None:
            import time as _t
            if _t.time() > self.deadline:
                raise Unsupported("symbolic execution time budget exceeded")
        feas = [i for i in range(n) if self.quick_feasible(conds[i])]
        if not feas:
            raise Infeasible()
        if len(feas) > 1:
            base = list(self.decisions)
            for i in feas[1:]:
                self.alternatives.append(base + [i])
        idx = feas[0]
        self.decisions.append(idx)
        self.cursor += 1
        self.prefix.append(idx)
        return idx

    def recording(self):
        return True

    def obligation(self, kind, goal, node=None, name=None, note=None):
        line = getattr(node, "lineno", None) if node is not None else self.cur_line
        oid = f"{self.fkey}/{kind}" + (f"#{name}" if name else "") + (f"@L{line}" if line and kind in ("frame", "assert", "pre@call", "decreases", "inv-init", "inv-keep", "index") else "")
        gs = z3.simplify(goal)
        self.obligations.append(Obligation(oid, kind, self.facts, goal, line, note, list(self.decisions)))

    # -- allocation ------------------------------------------------------
    def alloc(self, kind, cls):
        n = len(self.fresh)
        term = S.VObj(self.alloc_ptr + 0 if False else self.alloc_ptr)
        # distinctness: pointer strictly increases
        newptr = z3.Int(self.fresh_name("ap"))
        self.assume(newptr == self.alloc_ptr + 1)
        self.assume(S.ocls(self.alloc_ptr) == self.eng.clsid(cls))
        fr = Fresh(n, kind, cls, term)
        self.fresh[n] = fr
        self.fresh_ids[term.get_id()] = n
        self.alloc_ptr = newptr
        return fr

    def bump_alloc(self):
        newptr = z3.Int(self.fresh_name("ap"))
        self.assume(newptr >= self.alloc_ptr)
        self.alloc_ptr = newptr

    def fresh_of(self, t):
        n = self.fresh_ids.get(t.get_id())
        return self.fresh.get(n) if n is not None else None

    def mentions_fresh(self, t):
        if t.get_id() in self.fresh_ids:
            return True
        if z3.is_app(t) and t.decl().kind() == z3.Z3_OP_ITE:
            return self.mentions_fresh(t.arg(1)) or self.mentions_fresh(t.arg(2))
        return False

    def is_inworld(self, t):
        k = t.get_id()
        r = self.inworld_cache.get(k)
        if r is not None:
            return r
        r = self._inworld(t)
        self.inworld_cache[k] = r
        return r

    def _inworld(self, t):
        if not z3.is_app(t):
            return False
        d = t.decl()
        if d.kind() == z3.Z3_OP_UNINTERPRETED:
            if t.num_args() == 0:
                return d.name().startswith("p_")
            nm = d.name()
            if nm.startswith("fld_") or nm in ("seq_nth", "dict_get", "dict_keys", "dict_vals"):
                return self.is_inworld(t.arg(0))
            return False
        if d.kind() == z3.Z3_OP_ITE:
            return self.is_inworld(t.arg(1)) and self.is_inworld(t.arg(2))
        return False

    def closure_val(self, clo):
        fr = self.alloc("obj", self.eng.ct.ext["function"])
        self.closures[fr.n] = clo
        return TV(fr.term)

    def closure_of(self, t):
        fr = self.fresh_of(t)
        if fr is not None and fr.n in self.closures:
            return self.closures[fr.n]
        return None

    # -- frame -----------------------------------------------------------
    def modifies_allows(self, t, attr):
        for m in self.modifies:
            parts = m.split(".")
            if parts[-1] != attr and parts[-1] != "*":
                continue
            base = self.mod_bound.get(parts[0])
            if base is None:
                continue
            bt = base.t
            for p in parts[1:-1]:
                bt = S.fld(p)(bt)
            if bt.eq(t):
                return True
        return False

    def container_allowed(self, t):
        for m in self.modifies:
            parts = m.split(".")
            base = self.mod_bound.get(parts[0])
            if base is None:
                continue
            bt = base.t
            ok = True
            for p in parts[1:]:
                bt = self.eng.read_field(tv_val(bt), p).t
            if bt.eq(t):
                return True
        return False

    def havoc_world_container(self, t):
        self.world_havoc[t.get_id()] = self.world_havoc.get(t.get_id(), 0) + 1

    def snapshot_state(self):
        return {"overlay": dict(self.overlay), "overlay_terms": dict(self.overlay_terms),
                "fresh": {n: f.copy() for n, f in self.fresh.items()},
                "world_lists": {k: dict(v) for k, v in self.world_lists.items()}}

    # -- freezing ----------------------------------------------------------
    def freeze_value(self, tv):
        if not isinstance(tv, TV) or tv.sort != "val":
            return
        self._freeze_term(tv.t, set())

    def _freeze_term(self, t, seen):
        if t.get_id() in seen:
            return
        seen.add(t.get_id())
        fr = self.fresh_of(t)
        if fr is None:
            if z3.is_app(t) and t.decl().kind() == z3.Z3_OP_ITE:
                self._freeze_term(t.arg(1), seen)
                self._freeze_term(t.arg(2), seen)
            return
        if fr.frozen:
            return
        fr.frozen = True
        eng = self.eng
        if fr.kind == "obj":
            for f, v in fr.fields.items():
                if isinstance(v, PyObj):
                    continue
                self.assume(S.fld(f)(fr.term) == v)
                self._freeze_term(v, seen)
        elif fr.kind in ("list", "tuple", "deque"):
            self.assume(S.seq_len(fr.term) == fr.length)
            ln = z3.simplify(fr.length)
            if z3.is_int_value(ln) and ln.as_long() <= 8:
                for k in range(ln.as_long()):
                    e = z3.simplify(z3.Select(fr.arr, k))
                    self.assume(S.seq_nth(fr.term, z3.IntVal(k)) == e)
                    self._freeze_term(e, seen)
            else:
                k = z3.Int(self.fresh_name("fk"))
                self.assume(z3.ForAll([k], z3.Implies(z3.And(0 <= k, k < fr.length), S.seq_nth(fr.term, k) == z3.Select(fr.arr, k)),
                                      patterns=[S.seq_nth(fr.term, k)]))
                self._freeze_elems(fr.arr, seen)
        elif fr.kind == "dict":
            eng.B.freeze_dict(eng, fr, seen)
        elif fr.kind == "set":
            x = z3.Const(self.fresh_name("fx"), S.Val)
            self.assume(z3.ForAll([x], S.set_has(fr.term, x) == z3.Select(fr.has, x), patterns=[S.set_has(fr.term, x)]))

    def _freeze_elems(self, arr, seen):
        # walk Store chains to freeze fresh elements
        a = arr
        while z3.is_app(a) and a.decl().kind() == z3.Z3_OP_STORE:
            self._freeze_term(a.arg(2), seen)
            a = a.arg(0)

    # -- type hints derived from facts -------------------------------------
    def _entails(self, cond):
        key = ("ent", cond.get_id(), len(self.facts), tuple(c.get_id() for c in self.cond_stack))
        c = getattr(self, "_ent_cache", None)
        if c is None:
            c = self._ent_cache = {}
        if key in c:
            return c[key]
        r = not self.quick_feasible(z3.Not(cond))
        if r and not self.quick_feasible(cond):
            r = False     # dead context (guards contradict the path): nothing is known here
        c[key] = r
        return r

    def marked_list(self, t):
        e = self.eng
        cond = e.isinstance_expr(t, [e.ct.ext["list"], e.ct.ext["tuple"]])
        if z3.is_false(z3.simplify(cond)):
            return False
        return self._entails(cond)

    def marked_set(self, t):
        e = self.eng
        cond = e.isinstance_expr(t, [e.ct.ext["set"], e.ct.ext["frozenset"]])
        if z3.is_false(z3.simplify(cond)):
            return False
        return self._entails(cond)

    def marked_dict(self, t):
        e = self.eng
        cond = e.isinstance_expr(t, [e.ct.ext["dict"]])
        if z3.is_false(z3.simplify(cond)):
            return False
        return self._entails(cond)

    def set_owner_allowed(self, t):
        return False

    def world_set_write(self, t, nh):
        raise Unsupported("in-place update of in-world set")

    uses_bits = False
    uses_strlib = False
