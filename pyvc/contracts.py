"""Load sidecar contract files by *parsing* them (the engine never executes them)."""
import ast
import os

CONTRACT_DIR = os.path.join(os.path.dirname(os.path.dirname(os.path.abspath(__file__))), "contracts")


class ContractInfo:
    def __init__(self, key, props, node, module, assumed=False, opts=None):
        self.key = key            # 'core.register:Register.resolve_qubit'
        self.props = props
        self.node = node          # ClassDef
        self.module = module      # sidecar module name
        self.assumed = assumed
        self.opts = opts or {}
        self.methods = {}
        self.attrs = {}
        for item in node.body:
            if isinstance(item, ast.FunctionDef):
                self.methods[item.name] = item
            elif isinstance(item, ast.Assign) and len(item.targets) == 1 and isinstance(item.targets[0], ast.Name):
                try:
                    self.attrs[item.targets[0].id] = ast.literal_eval(item.value)
                except Exception:
                    self.attrs[item.targets[0].id] = item.value

    @property
    def name(self):
        return self.node.name

    def requires(self):
        return self.methods.get("requires")

    def ensures(self):
        return [(n[len("ensures"):].lstrip("_") or "post", f) for n, f in self.methods.items() if n.startswith("ensures")]

    def raises(self):
        """[(ExcName, mode, fn)] mode in {'iff','when'}"""
        out = []
        for n, f in self.methods.items():
            if n.startswith("raises_"):
                rest = n[len("raises_"):]
                mode = "iff"
                if rest.endswith("_when"):
                    rest, mode = rest[:-5], "when"
                out.append((rest, mode, f))
        return out

    def raises_only(self):
        ro = self.attrs.get("raises_only")
        if ro is None:
            return None
        if isinstance(ro, str):
            ro = (ro,)
        return tuple(ro)

    def modifies(self):
        m = self.attrs.get("modifies", ())
        if isinstance(m, str):
            m = (m,)
        return tuple(m)

    def ghost(self):
        g = self.attrs.get("ghost", ())
        if isinstance(g, str):
            g = (g,)
        return tuple(g)

    def inv(self, k):
        return self.methods.get(f"inv_{k}")

    def var(self, k):
        return self.methods.get(f"var_{k}")

    def decreases(self):
        return self.methods.get("decreases")

    def region(self, name):
        return self.methods.get(f"region_{name}")


class SpecInfo:
    def __init__(self, name, node, module):
        self.name = name
        self.node = node
        self.module = module
        self.arg_sorts = []
        for a in node.args.args:
            self.arg_sorts.append(_ann_sort(a.annotation))
        self.ret_sort = _ann_sort(node.returns)
        self.nat = isinstance(node.returns, ast.Name) and node.returns.id == "nat"
        self.calls = set()
        for n in ast.walk(node):
            if isinstance(n, ast.Call) and isinstance(n.func, ast.Name):
                self.calls.add(n.func.id)
        self.recursive = False
        # abstract spec: body is `...` (after an optional docstring): an uninterpreted function with no definition.
        # It names a value the contracts relate but never compute (e.g. "the circuit pass P returns for c").
        body = [b for b in node.body if not (isinstance(b, ast.Expr) and isinstance(b.value, ast.Constant) and isinstance(b.value.value, str))]
        self.abstract = len(body) == 1 and isinstance(body[0], ast.Expr) and isinstance(body[0].value, ast.Constant) and body[0].value.value is Ellipsis


def _ann_sort(ann):
    if ann is None:
        return "val"
    if isinstance(ann, ast.Name):
        return {"int": "int", "nat": "int", "bool": "bool", "float": "real", "str": "str"}.get(ann.id, "val")
    return "val"


class LemmaInfo:
    def __init__(self, name, props, node, module):
        self.name = name
        self.props = props
        self.node = node
        self.module = module


class ContractSet:
    def __init__(self, directory=None):
        self.directory = directory or CONTRACT_DIR
        self.specs = {}
        self.contracts = {}   # key -> [ContractInfo]
        self.assumed = {}     # key -> [ContractInfo]
        self.lemmas = {}
        self.lemma_classes = {}   # name -> ContractInfo (requires / claim / induction)
        self.files = {}
        for fn in sorted(os.listdir(self.directory)):
            if fn.endswith(".py") and not fn.startswith("_"):
                self._load(os.path.join(self.directory, fn))
        # recursion detection among specs
        for s in self.specs.values():
            if s.abstract:
                s.recursive = True      # gets a declared symbol; _define_spec adds no axiom
                continue
            if "[function]" in (ast.get_docstring(s.node) or ""):
                # asked for by the spec's author: a declared function symbol with one definitional axiom instead of
                # inline expansion at every use (large non-recursive definitions used many times)
                s.recursive = True
                continue
            seen = set()
            stack = list(s.calls)
            while stack:
                c = stack.pop()
                if c == s.name:
                    s.recursive = True
                    break
                if c in seen or c not in self.specs:
                    continue
                seen.add(c)
                stack.extend(self.specs[c].calls)

    def _load(self, path):
        with open(path) as fh:
            src = fh.read()
        tree = ast.parse(src, filename=path)
        modname = os.path.basename(path)[:-3]
        self.files[modname] = path
        for node in tree.body:
            if isinstance(node, ast.FunctionDef):
                for dec in node.decorator_list:
                    dn, args, kw = _dec(dec)
                    if dn == "spec":
                        self.specs[node.name] = SpecInfo(node.name, node, modname)
                    elif dn == "lemma":
                        self.lemmas[node.name] = LemmaInfo(node.name, tuple(kw.get("props", ())), node, modname)
            elif isinstance(node, ast.ClassDef):
                for dec in node.decorator_list:
                    dn, args, kw = _dec(dec)
                    if dn == "lemma":
                        ci = ContractInfo("lemma:" + node.name, tuple(kw.get("props", ())), node, modname, assumed=False, opts=kw)
                        self.lemma_classes[node.name] = ci
                    if dn in ("contract", "assumed"):
                        key = args[0]
                        ci = ContractInfo(key, tuple(kw.get("props", ())), node, modname, assumed=(dn == "assumed"), opts=kw)
                        (self.assumed if dn == "assumed" else self.contracts).setdefault(key, []).append(ci)

    def contract_for(self, key):
        """The (single) contract used at call sites of `key`: verified contract first, else assumed."""
        key = _norm(key)
        for table in (self.contracts, self.assumed):
            for k, lst in table.items():
                if _norm(k) == key:
                    # merge is not supported: first entry marked primary wins
                    for c in lst:
                        if c.opts.get("primary", True):
                            return c
        return None

    def all_contracts(self):
        for lst in self.contracts.values():
            yield from lst


def _norm(key):
    mod, q = key.split(":")
    if mod.startswith("jaqalpaq."):
        mod = mod[len("jaqalpaq."):]
    return f"{mod}:{q}"


def _dec(dec):
    if isinstance(dec, ast.Name):
        return dec.id, [], {}
    if isinstance(dec, ast.Call) and isinstance(dec.func, ast.Name):
        args = [ast.literal_eval(a) for a in dec.args]
        kw = {}
        for k in dec.keywords:
            try:
                kw[k.arg] = ast.literal_eval(k.value)
            except Exception:
                kw[k.arg] = None
        return dec.func.id, args, kw
    return None, [], {}
