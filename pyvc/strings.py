"""String lemma library (axioms about reverse / zfill / binary value).  Empty for now: obligations that
need these facts are not claimed as proved."""


def axioms(run):
    return []
