"""String/bit lemma library used by obligations about binary formatting (C15).

Each lemma is an axiom over the uninterpreted models of Python builtins
  bin_str(r)  = format(r, 'b')        str_zfill(s, w) = s.zfill(w)        str_rev(s) = s[::-1]
  testbit(r, j) = (r >> j) & 1 == 1   pow2(n) = 2**n                       blen(r) = max(1, r.bit_length())
and has an executable twin in LEMMAS below that tools/check_lemmas.py runs against CPython on a grid plus
random values (the check of a property that uses this library runs it too).  The lemmas are ASSUMPTIONS of
the proofs that use them and are listed as such in evidence."""
import z3

I = z3.IntSort()
Str = z3.StringSort()
BIN_STR = z3.Function("bin_str", I, Str)
BLEN = z3.Function("blen", I, I)


def ch(s, i):
    return z3.SubString(s, i, 1)


def axioms(run):
    from .builtins import STR_ZFILL, STR_REV, TESTBIT, POW2, BIN_VALUE
    r, n, i, w = z3.Ints("lr ln li lw")
    s = z3.String("ls")
    one, zero = z3.StringVal("1"), z3.StringVal("0")
    ax = []
    # L1 length of the binary numeral
    ax.append(z3.ForAll([r], z3.Implies(r >= 0, z3.And(z3.Length(BIN_STR(r)) == BLEN(r), BLEN(r) >= 1)), patterns=[BIN_STR(r)]))
    # L2 r < 2^n  =>  the numeral has at most n digits (n >= 1)
    ax.append(z3.ForAll([r, n], z3.Implies(z3.And(r >= 0, n >= 1, r < POW2(n)), BLEN(r) <= n), patterns=[z3.MultiPattern(BLEN(r), POW2(n))]))
    # L3 digit i (from the left) is '1' iff bit (len-1-i) is set, else '0'
    ax.append(z3.ForAll([r, i], z3.Implies(z3.And(r >= 0, 0 <= i, i < BLEN(r)),
                                           z3.And(z3.Or(ch(BIN_STR(r), i) == one, ch(BIN_STR(r), i) == zero),
                                                  (ch(BIN_STR(r), i) == one) == TESTBIT(r, BLEN(r) - 1 - i))),
                        patterns=[ch(BIN_STR(r), i)]))
    # L4 bits at or above the numeral's length are clear
    ax.append(z3.ForAll([r, i], z3.Implies(z3.And(r >= 0, i >= BLEN(r)), z3.Not(TESTBIT(r, i))), patterns=[TESTBIT(r, i)]))
    # L5 zfill pads with '0' on the left up to the width (strings without sign)
    for (s0, w0, res) in getattr(run, "zfill_terms", []):
        pad = z3.If(w0 > z3.Length(s0), w0 - z3.Length(s0), 0)
        ax.append(z3.Length(res) == z3.Length(s0) + pad)
        ax.append(z3.ForAll([i], z3.Implies(z3.And(0 <= i, i < z3.Length(res)),
                                            ch(res, i) == z3.If(i < pad, zero, ch(s0, i - pad))), patterns=[ch(res, i)]))
    # L6 reversal
    for (s0, res) in getattr(run, "rev_pairs", []):
        ax.append(z3.Length(res) == z3.Length(s0))
        ax.append(z3.ForAll([i], z3.Implies(z3.And(0 <= i, i < z3.Length(res)), ch(res, i) == ch(s0, z3.Length(s0) - 1 - i)), patterns=[ch(res, i)]))
    return ax


ASSUMPTION_TEXT = ("string/bit lemma library L1-L6 (pyvc/strings.py): models of format(r,'b'), str.zfill, [::-1] and bit tests; "
                   "each lemma is run against CPython on a grid and random values by tools/check_lemmas.py, not proved")


# ---- executable twins -------------------------------------------------------------------------
def twins():
    def blen(r):
        return max(1, r.bit_length())

    def L1(r):
        return len(format(r, "b")) == blen(r) and blen(r) >= 1

    def L2(r, n):
        return (not (n >= 1 and r < 2 ** n)) or blen(r) <= n

    def L3(r, i):
        b = format(r, "b")
        if not (0 <= i < blen(r)):
            return True
        return b[i] in "01" and ((b[i] == "1") == (((r >> (blen(r) - 1 - i)) & 1) == 1))

    def L4(r, i):
        return i < blen(r) or ((r >> i) & 1) == 0

    def L5(s, w):
        res = s.zfill(w)
        pad = max(0, w - len(s))
        return len(res) == len(s) + pad and all(res[i] == ("0" if i < pad else s[i - pad]) for i in range(len(res)))

    def L6(s):
        res = s[::-1]
        return len(res) == len(s) and all(res[i] == s[len(s) - 1 - i] for i in range(len(s)))

    return {"L1": L1, "L2": L2, "L3": L3, "L4": L4, "L5": L5, "L6": L6}


def check_twins(seed=0, n_random=400):
    import random
    rng = random.Random(seed)
    T = twins()
    rs = list(range(0, 70)) + [2 ** k + d for k in (8, 16, 31, 32, 63, 64, 100) for d in (-1, 0, 1)] + [rng.getrandbits(rng.randrange(1, 80)) for _ in range(n_random)]
    bad = []
    for r in rs:
        if not T["L1"](r):
            bad.append(("L1", r))
        for n in (1, 2, 3, 8, 33, 64, 101):
            if not T["L2"](r, n):
                bad.append(("L2", r, n))
        for i in list(range(0, 12)) + [31, 63, 64, 99]:
            if not T["L3"](r, i):
                bad.append(("L3", r, i))
            if not T["L4"](r, i):
                bad.append(("L4", r, i))
        s = format(r, "b")
        for w in (0, 1, 3, 8, 70):
            if not T["L5"](s, w):
                bad.append(("L5", s, w))
        if not T["L6"](s):
            bad.append(("L6", s))
    return len(rs), bad
