"""Bit lemma library placeholder (see contracts/emulator.py for the facts actually used)."""


def axioms():
    return []
