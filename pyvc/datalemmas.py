"""Data lemmas (over constants extracted from the source) and property-level lemmas."""


def run(eng, prop, tier):
    return {"obligations": [], "assumptions": [], "summary": None}
