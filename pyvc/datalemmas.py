"""Data lemmas: regular-language facts about constants extracted from the real source
(the lexer's token patterns), decided by z3's regex theory.  The patterns are read from
/repo's current slyparse.py by AST on every run - nothing is copied."""
import ast
import time
import z3

from .classtable import REPO_SRC
import os


# ---------------------------------------------------------------------- python regex -> z3 regex (subset)
class RxParser:
    def __init__(self, pat):
        self.p = pat
        self.i = 0

    def parse(self):
        r = self.alt()
        if self.i != len(self.p):
            raise ValueError(f"regex: trailing input at {self.i} in {self.p!r}")
        return r

    def alt(self):
        parts = [self.seq()]
        while self.i < len(self.p) and self.p[self.i] == "|":
            self.i += 1
            parts.append(self.seq())
        return parts[0] if len(parts) == 1 else z3.Union(*parts)

    def seq(self):
        items = []
        while self.i < len(self.p) and self.p[self.i] not in "|)":
            items.append(self.quant())
        if not items:
            return z3.Re("")
        return items[0] if len(items) == 1 else z3.Concat(*items)

    def quant(self):
        a = self.atom()
        while self.i < len(self.p) and self.p[self.i] in "*+?":
            c = self.p[self.i]
            self.i += 1
            if self.i < len(self.p) and self.p[self.i] == "?":
                self.i += 1        # lazy quantifier: same language
            a = z3.Star(a) if c == "*" else z3.Plus(a) if c == "+" else z3.Option(a)
        return a

    def atom(self):
        c = self.p[self.i]
        if c == "(":
            self.i += 1
            if self.p.startswith("?:", self.i):
                self.i += 2
            r = self.alt()
            assert self.p[self.i] == ")"
            self.i += 1
            return r
        if c == "[":
            return self.cls()
        if c == ".":
            self.i += 1
            return z3.Diff(z3.AllChar(z3.ReSort(z3.StringSort())), z3.Re("\n"))
        if c == "\\":
            self.i += 2
            return z3.Re(self.esc(self.p[self.i - 1]))
        self.i += 1
        return z3.Re(c)

    def esc(self, ch):
        return {"n": "\n", "t": "\t", "r": "\r"}.get(ch, ch)

    def cls(self):
        assert self.p[self.i] == "["
        self.i += 1
        neg = False
        if self.p[self.i] == "^":
            neg = True
            self.i += 1
        parts = []
        while self.p[self.i] != "]":
            c = self.p[self.i]
            if c == "\\":
                c = self.esc(self.p[self.i + 1])
                self.i += 2
            else:
                self.i += 1
            if self.p[self.i] == "-" and self.p[self.i + 1] != "]":
                hi = self.p[self.i + 1]
                self.i += 2
                parts.append(z3.Range(c, hi))
            else:
                parts.append(z3.Re(c))
        self.i += 1
        u = parts[0] if len(parts) == 1 else z3.Union(*parts)
        if neg:
            return z3.Diff(z3.AllChar(z3.ReSort(z3.StringSort())), u)
        return u


def rx(pat):
    return RxParser(pat).parse()


# ---------------------------------------------------------------------- extraction
def lexer_data(src_root=None):
    path = os.path.join(src_root or os.environ.get("PYVC_REPO_SRC", REPO_SRC), "jaqalpaq", "parser", "slyparse.py")
    tree = ast.parse(open(path).read())
    data = {"order": []}
    for node in tree.body:
        if isinstance(node, ast.ClassDef) and node.name == "JaqalLexer":
            for item in node.body:
                if isinstance(item, ast.Assign) and len(item.targets) == 1 and isinstance(item.targets[0], ast.Name):
                    n = item.targets[0].id
                    try:
                        v = ast.literal_eval(item.value)
                    except Exception:
                        continue
                    data[n] = v
                    if isinstance(v, str) and n not in ("ignore",):
                        data["order"].append(n)
                elif isinstance(item, ast.FunctionDef):
                    data.setdefault("methods", []).append(item.name)
    return data


ANY = z3.Full(z3.ReSort(z3.StringSort()))
DIGITS = z3.Plus(z3.Range("0", "9"))
# shape of CPython's repr() of a finite float: -?d+.d+ | -?d(.d+)?e[+-]dd+   (cross-checked natively by bounded/c01.py)
FLOAT_REPR = z3.Concat(z3.Option(z3.Re("-")), z3.Union(
    z3.Concat(DIGITS, z3.Re("."), DIGITS),
    z3.Concat(z3.Range("0", "9"), z3.Option(z3.Concat(z3.Re("."), DIGITS)), z3.Re("e"), z3.Union(z3.Re("+"), z3.Re("-")), z3.Range("0", "9"), DIGITS)))
INT_REPR = z3.Concat(z3.Option(z3.Re("-")), DIGITS)


def _solve(name, prop, constraints, finding=None, timeout=20000):
    t0 = time.time()
    s = z3.Solver()
    s.set("timeout", timeout)
    for c in constraints:
        s.add(c)
    r = s.check()
    d = {"id": f"{prop}/data:{name}", "base_id": f"data:{name}", "kind": "data", "result": "discharged" if r == z3.unsat else "failed",
         "solver": "z3-regex", "time": round(time.time() - t0, 3), "role": "plain", "reason": str(r), "note": None, "line": None, "smt2": None, "findings": None}
    if r == z3.sat:
        m = s.model()
        d["witness"] = {str(k): (m[k].as_string() if z3.is_string_value(m[k]) else str(m[k])) for k in m.decls()}
        d["note"] = f"counter-model {d['witness']}"
    return d


def run(eng, prop, tier):
    out = []
    if prop not in ("C01", "C02", "C16"):
        return {"obligations": [], "assumptions": [], "summary": None}
    L = lexer_data()
    s1, s2 = z3.String("s1"), z3.String("s2")
    if prop == "C02":
        mc = rx(L["ignore_multiline_comment"])
        # a block comment ends at the first */ : no match has a proper prefix that is also a match
        out.append(_solve("multiline-comment-prefix-free", prop, [z3.InRe(s1, mc), z3.Length(s2) > 0, z3.InRe(z3.Concat(s1, s2), mc)]))
        # the pattern's language IS the language of C-style comments: "/*", then any text without "*/", then "*/"
        spec = z3.Concat(z3.Re("/*"), z3.Complement(z3.Concat(ANY, z3.Re("*/"), ANY)), z3.Re("*/"))
        for nm, cs in (("every-block-comment-is-matched-whole", [z3.InRe(s1, spec), z3.Not(z3.InRe(s1, mc))]),
                       ("only-block-comments-are-matched", [z3.InRe(s1, mc), z3.Not(z3.InRe(s1, spec))])):
            d = _solve(nm, prop, cs)
            if d["result"] == "failed" and d.get("witness"):
                # replay on the real pattern with Python's re
                import re
                w = d["witness"].get("s1", "")
                full = re.fullmatch(L["ignore_multiline_comment"], w) is not None
                is_comment = w.startswith("/*") and w.endswith("*/") and len(w) >= 4 and "*/" not in w[2:-2] and w[:3] != "/*/" or w == "/**/"
                is_comment = len(w) >= 4 and w.startswith("/*") and w.endswith("*/") and w.find("*/", 2) == len(w) - 2
                d["native"] = {"verdict": "violation" if full != is_comment else "not-reproduced",
                               "detail": f"re.fullmatch(pattern, {w!r}) is {full}; it is {'a' if is_comment else 'not a'} complete block comment"}
            out.append(d)
        lc = rx(L["ignore_comment"])
        out.append(_solve("line-comment-stops-at-newline", prop, [z3.InRe(s1, lc), z3.Contains(s1, z3.StringVal("\n"))]))
    if prop == "C01":
        num = rx(L["NUMBER"])
        integer = rx(L["INT"])
        ident = rx(L["IDENTIFIER"])
        out.append(_solve("float-repr-lexes-as-NUMBER", prop, [z3.InRe(s1, FLOAT_REPR), z3.Not(z3.InRe(s1, num))]))
        out.append(_solve("int-repr-lexes-as-INT-not-NUMBER", prop, [z3.InRe(s1, INT_REPR), z3.Or(z3.Not(z3.InRe(s1, integer)), z3.InRe(s1, num))]))
        # no rule that sly tries before NUMBER can take a prefix of a printed literal
        earlier = [rx(L[n]) for n in L["order"][: L["order"].index("NUMBER")]]
        out.append(_solve("no-earlier-rule-matches-a-literal-prefix", prop,
                          [z3.InRe(z3.Concat(s1, s2), z3.Union(FLOAT_REPR, INT_REPR)), z3.Length(s1) > 0, z3.InRe(s1, z3.Union(*earlier))]))
        # a printed float is not cut short: no proper prefix of it followed by the rest is what NUMBER would stop at with
        # a remainder that starts an identifier (the '1e-06' -> INT IDENTIFIER failure)
        out.append(_solve("float-repr-not-INT-then-IDENTIFIER", prop,
                          [z3.InRe(z3.Concat(s1, s2), FLOAT_REPR), z3.InRe(s1, integer), z3.Length(s2) > 0, z3.Not(z3.InRe(z3.Concat(s1, s2), num)),
                           z3.InRe(s2, z3.Concat(ident, ANY))]))
    if prop == "C16":
        has_error = "error" in L.get("methods", [])
        d = {"id": f"{prop}/data:lexer-defines-error-handler", "base_id": "data:lexer-defines-error-handler", "kind": "data",
             "result": "discharged" if has_error else "failed", "solver": "ast-scan", "time": 0.0, "role": "plain", "reason": "", "line": None, "smt2": None,
             "findings": None, "note": None if has_error else "JaqalLexer has no error() method: an illegal character escapes as sly.lex.LexError"}
        out.append(d)
    return {"obligations": out, "assumptions": ["sly lexes with Python re semantics on the master regex built from the class-body order (DESIGN 6.5)",
                                               "shape of repr(float) for finite floats (cross-checked natively on a grid by the bounded stand-in)"],
            "summary": {"lemmas": [o["id"] for o in out]}}
