"""Turn a z3 counter-model into a JSON description of real inputs (rebuilt natively by replay)."""
import z3
from . import smt as S
from .classtable import ClassInfo, ExternalClass


class Concretiser:
    def __init__(self, eng, model, real_tab=None):
        self.eng = eng
        self.m = model
        self.objs = {}       # oid -> description
        self.id2cls = {v: k for k, v in eng.class_ids.items()}
        self.depth = 0

    def ev(self, e):
        return self.m.eval(e, model_completion=True)

    def value(self, t, depth=0):
        v = self.ev(t)
        if depth > 12:
            return {"k": "none"}
        if z3.is_app(v):
            d = v.decl()
            if d.eq(S.VNone):
                return {"k": "none"}
            if d.eq(S.VAll):
                return {"k": "all"}
            if d.eq(S.VBool):
                return {"k": "bool", "v": z3.is_true(self.ev(v.arg(0)))}
            if d.eq(S.VInt):
                return {"k": "int", "v": self.ev(v.arg(0)).as_long()}
            if d.eq(S.VReal):
                r = self.ev(v.arg(0))
                try:
                    fr = r.as_fraction()
                    return {"k": "float", "v": float(fr)}
                except Exception:
                    return {"k": "float", "v": 0.5}
            if d.eq(S.VStr):
                s = self.ev(v.arg(0))
                return {"k": "str", "v": s.as_string() if z3.is_string_value(s) else ""}
            if d.eq(S.VEnum):
                ec = self.ev(v.arg(0)).as_long()
                ei = self.ev(v.arg(1)).as_long()
                ck = self.id2cls.get(ec)
                if ck is None and ec == 0:
                    return {"k": "class", "cls": self.id2cls.get(ei, "?")}
                names = {vv: kk for kk, vv in self.eng.enum_ids.get(ck, {}).items()} if ck else {}
                return {"k": "enum", "cls": ck, "name": names.get(ei)}
            if d.eq(S.VObj):
                o = self.ev(v.arg(0)).as_long()
                return self.obj(o, v, depth)
        return {"k": "none"}

    def obj(self, o, term, depth):
        if o in self.objs:
            return {"k": "ref", "id": o}
        cid = self.ev(S.ocls(z3.IntVal(o))).as_long()
        ck = self.id2cls.get(cid)
        desc = {"k": "obj", "id": o, "cls": ck, "fields": {}}
        self.objs[o] = desc
        if ck is None:
            desc["k"] = "opaque"
            return {"k": "ref", "id": o}
        cls = None
        for c in self.eng.ct.every_class():
            if c.key == ck:
                cls = c
        name = cls.name
        if isinstance(cls, ExternalClass):
            if name in ("list", "tuple", "deque"):
                n = self.ev(S.seq_len(term)).as_long()
                n = max(0, min(n, 6))
                desc["k"] = name
                desc["items"] = [self.value(S.seq_nth(term, z3.IntVal(i)), depth + 1) for i in range(n)]
            elif name in ("dict", "OrderedDict", "defaultdict"):
                kt = S.dict_keys(term)
                n = self.ev(S.seq_len(kt)).as_long()
                n = max(0, min(n, 6))
                desc["k"] = "dict"
                items = []
                for i in range(n):
                    kterm = S.seq_nth(kt, z3.IntVal(i))
                    items.append([self.value(kterm, depth + 1), self.value(S.dict_get(term, kterm), depth + 1)])
                desc["items"] = items
                desc["note_has"] = True
            elif name == "slice":
                desc["k"] = "slice"
                for f in ("start", "stop", "step"):
                    desc["fields"][f] = self.value(S.fld(f)(term), depth + 1)
            elif name == "function":
                desc["k"] = "function"
            elif name in ("set", "frozenset"):
                desc["k"] = "set"
                desc["items"] = []
            else:
                desc["k"] = "opaque"
        else:
            for f in sorted(self.eng.class_fields(cls)):
                desc["fields"][f] = self.value(S.fld(f)(term), depth + 1)
        return {"k": "ref", "id": o}


def concretise(eng, model, run, model_kind="ground"):
    """JSON-able description of the parameters of the function under verification."""
    c = Concretiser(eng, model)
    params = {}
    for name, tv in run.root_bindings.items():
        try:
            params[name] = c.value(tv.val())
        except Exception as ex:
            params[name] = {"k": "error", "msg": str(ex)}
    return {"params": params, "objects": {str(k): v for k, v in c.objs.items()}, "model_kind": model_kind}
