"""SMT vocabulary shared by the symbolic executor and the contract translator."""
import z3

# --------------------------------------------------------------------------------
# The universal value sort
Val = z3.Datatype("Val")
Val.declare("VNone")
Val.declare("VBool", ("bv", z3.BoolSort()))
Val.declare("VInt", ("iv", z3.IntSort()))
Val.declare("VReal", ("rv", z3.RealSort()))
Val.declare("VStr", ("sv", z3.StringSort()))
Val.declare("VObj", ("oid", z3.IntSort()))
Val.declare("VEnum", ("ecls", z3.IntSort()), ("eid", z3.IntSort()))
Val.declare("VAll")   # the builtin ``all`` used as a sentinel by jaqalpaq
Val = Val.create()

VNone, VBool, VInt, VReal, VStr, VObj, VEnum, VAll = (
    Val.VNone, Val.VBool, Val.VInt, Val.VReal, Val.VStr, Val.VObj, Val.VEnum, Val.VAll)
is_VNone, is_VBool, is_VInt, is_VReal, is_VStr, is_VObj, is_VEnum, is_VAll = (
    Val.is_VNone, Val.is_VBool, Val.is_VInt, Val.is_VReal, Val.is_VStr, Val.is_VObj, Val.is_VEnum, Val.is_VAll)
bv, iv, rv, sv, oid, ecls, eid = Val.bv, Val.iv, Val.rv, Val.sv, Val.oid, Val.ecls, Val.eid

I = z3.IntSort()
B = z3.BoolSort()

# class of an object id
ocls = z3.Function("ocls", I, I)
# sequences (list / tuple / deque / dict views) of the frozen world
seq_len = z3.Function("seq_len", Val, I)
seq_nth = z3.Function("seq_nth", Val, I, Val)
# dicts of the frozen world
dict_has = z3.Function("dict_has", Val, Val, B)
dict_get = z3.Function("dict_get", Val, Val, Val)
dict_keys = z3.Function("dict_keys", Val, Val)     # a sequence object holding the keys in order
dict_vals = z3.Function("dict_vals", Val, Val)     # a sequence object holding the values in order
# sets of the frozen world
set_has = z3.Function("set_has", Val, Val, B)
# bound on object ids of the input world: everything reachable from the inputs is below it
ALLOC0 = z3.Int("ALLOC0")

_fields = {}


def fld(name):
    f = _fields.get(name)
    if f is None:
        f = _fields[name] = z3.Function(f"fld_{name}", Val, Val)
    return f


def known_fields():
    return dict(_fields)


# --------------------------------------------------------------------------------
def simp_iv(v):
    """Int view of a Val term (caller is responsible for the type obligation)."""
    if z3.is_app(v) and v.decl().eq(VInt):
        return v.arg(0)
    if z3.is_app(v) and v.decl().eq(VBool):
        return z3.If(v.arg(0), z3.IntVal(1), z3.IntVal(0))
    return z3.If(is_VBool(v), z3.If(bv(v), z3.IntVal(1), z3.IntVal(0)), iv(v))


def simp_bv(v):
    if z3.is_app(v) and v.decl().eq(VBool):
        return v.arg(0)
    return bv(v)


def mk_int(e):
    if isinstance(e, int):
        e = z3.IntVal(e)
    return VInt(e)


def mk_bool(e):
    if isinstance(e, bool):
        e = z3.BoolVal(e)
    return VBool(e)


def mk_str(e):
    if isinstance(e, str):
        e = z3.StringVal(e)
    return VStr(e)


def is_numeric(v):
    return z3.Or(is_VInt(v), is_VBool(v), is_VReal(v))


def is_intlike(v):
    return z3.Or(is_VInt(v), is_VBool(v))


def real_of(v):
    """Real view of a numeric Val."""
    if z3.is_app(v) and v.decl().eq(VReal):
        return v.arg(0)
    if z3.is_app(v) and v.decl().eq(VInt):
        return z3.ToReal(v.arg(0))
    return z3.If(is_VReal(v), rv(v), z3.ToReal(simp_iv(v)))


def truthy(v):
    """Python truth value of a Val (objects: true unless they are containers - the caller
    handles containers explicitly)."""
    if z3.is_app(v):
        d = v.decl()
        if d.eq(VBool):
            return v.arg(0)
        if d.eq(VInt):
            return v.arg(0) != 0
        if d.eq(VNone):
            return z3.BoolVal(False)
        if d.eq(VStr):
            return z3.Length(v.arg(0)) > 0
    return z3.If(is_VNone(v), False,
           z3.If(is_VBool(v), bv(v),
           z3.If(is_VInt(v), iv(v) != 0,
           z3.If(is_VReal(v), rv(v) != 0,
           z3.If(is_VStr(v), z3.Length(sv(v)) > 0, True)))))


def val_eq(a, b):
    """Python == on values without user __eq__: numbers by value, everything else structural/identity."""
    num = z3.And(is_numeric(a), is_numeric(b))
    if _is_ctor(a, VInt) and _is_ctor(b, VInt):
        return a.arg(0) == b.arg(0)
    if _is_ctor(a, VInt) or _is_ctor(b, VInt) or _is_ctor(a, VReal) or _is_ctor(b, VReal) or _is_ctor(a, VBool) or _is_ctor(b, VBool):
        return z3.And(num, real_of(a) == real_of(b))
    if _is_ctor(a, VNone) or _is_ctor(b, VNone) or _is_ctor(a, VStr) or _is_ctor(b, VStr) or _is_ctor(a, VEnum) or _is_ctor(b, VEnum) or _is_ctor(a, VAll) or _is_ctor(b, VAll):
        return a == b
    return z3.If(num, real_of(a) == real_of(b), a == b)


def _is_ctor(v, c):
    return z3.is_app(v) and v.decl().eq(c)
