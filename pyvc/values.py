"""Executor-side value wrappers."""
import z3
from . import smt as S


class TV:
    """A typed SMT term: sort in {'val','int','bool','real','str'}."""
    __slots__ = ("t", "sort")

    def __init__(self, t, sort="val"):
        self.t = t
        self.sort = sort

    def __repr__(self):
        return f"TV<{self.sort}:{self.t}>"

    # -- conversions -------------------------------------------------------
    def val(self):
        if self.sort == "val":
            return self.t
        if self.sort == "int":
            return S.VInt(self.t)
        if self.sort == "bool":
            return S.VBool(self.t)
        if self.sort == "real":
            return S.VReal(self.t)
        if self.sort == "str":
            return S.VStr(self.t)
        raise AssertionError(self.sort)

    def as_int(self):
        if self.sort == "int":
            return self.t
        if self.sort == "bool":
            return z3.If(self.t, z3.IntVal(1), z3.IntVal(0))
        if self.sort == "val":
            return S.simp_iv(self.t)
        raise TypeError(f"not int: {self}")

    def as_real(self):
        if self.sort == "real":
            return self.t
        if self.sort in ("int", "bool"):
            return z3.ToReal(self.as_int())
        if self.sort == "val":
            return S.real_of(self.t)
        raise TypeError(f"not real: {self}")

    def as_str(self):
        if self.sort == "str":
            return self.t
        if self.sort == "val":
            if z3.is_app(self.t) and self.t.decl().eq(S.VStr):
                return self.t.arg(0)
            return S.sv(self.t)
        raise TypeError(f"not str: {self}")

    def truth(self):
        if self.sort == "bool":
            return self.t
        if self.sort == "int":
            return self.t != 0
        if self.sort == "real":
            return self.t != 0
        if self.sort == "str":
            return z3.Length(self.t) > 0
        return S.truthy(self.t)

    def is_concrete_int(self):
        return self.sort == "int" and z3.is_int_value(z3.simplify(self.t))

    def concrete_int(self):
        return z3.simplify(self.t).as_long()


def tv_int(e):
    if isinstance(e, int):
        e = z3.IntVal(e)
    return TV(e, "int")


def tv_bool(e):
    if isinstance(e, bool):
        e = z3.BoolVal(e)
    return TV(e, "bool")


def tv_str(e):
    if isinstance(e, str):
        e = z3.StringVal(e)
    return TV(e, "str")


def tv_real(e):
    return TV(e, "real")


def tv_val(e):
    """Wrap a Val term, unwrapping constructors when syntactically visible."""
    if z3.is_app(e):
        d = e.decl()
        if d.eq(S.VInt):
            return TV(e.arg(0), "int")
        if d.eq(S.VBool):
            return TV(e.arg(0), "bool")
        if d.eq(S.VStr):
            return TV(e.arg(0), "str")
        if d.eq(S.VReal):
            return TV(e.arg(0), "real")
    return TV(e, "val")


TV_NONE = TV(S.VNone, "val")
TV_ALL = TV(S.VAll, "val")


# ---- python-side (non SMT) values -------------------------------------------------
class PyObj:
    pass


class Closure(PyObj):
    def __init__(self, node, frame_id, module, cls, qualname, self_val=None):
        self.node = node          # FunctionDef or Lambda
        self.frame_id = frame_id  # defining frame (late binding)
        self.module = module
        self.cls = cls
        self.qualname = qualname
        self.self_val = self_val

    def __repr__(self):
        return f"<Closure {self.qualname}>"


class FuncRef(PyObj):
    def __init__(self, fi):
        self.fi = fi

    def __repr__(self):
        return f"<FuncRef {self.fi.key}>"


class BoundMethod(PyObj):
    def __init__(self, recv, name, candidates=None, super_of=None):
        self.recv = recv          # TV
        self.name = name
        self.candidates = candidates
        self.super_of = super_of

    def __repr__(self):
        return f"<BoundMethod {self.name}>"


class ClassRef(PyObj):
    def __init__(self, cls):
        self.cls = cls

    def __repr__(self):
        return f"<ClassRef {self.cls.name}>"


class ModuleRef(PyObj):
    def __init__(self, name):
        self.name = name

    def __repr__(self):
        return f"<ModuleRef {self.name}>"


class BuiltinRef(PyObj):
    def __init__(self, name):
        self.name = name

    def __repr__(self):
        return f"<Builtin {self.name}>"


class SpecRef(PyObj):
    def __init__(self, name):
        self.name = name


class SuperRef(PyObj):
    def __init__(self, cls, self_val):
        self.cls = cls
        self.self_val = self_val


class TupleVal(PyObj):
    """A fixed-length python-side tuple/list of values (used for literals, *args, unpacking)."""
    def __init__(self, items, kind="tuple"):
        self.items = list(items)
        self.kind = kind

    def __repr__(self):
        return f"<{self.kind}{self.items}>"


class LambdaSpec(PyObj):
    """A lambda inside a contract (forall_range etc.)."""
    def __init__(self, node, frame_id):
        self.node = node
        self.frame_id = frame_id
