"""Background axioms added per obligation: spec-function definitions, lemma library."""
import z3
from . import smt as S


def spec_symbols(eng, exprs):
    names = {f"spec_{n}": n for n in eng.spec_decls}
    found = set()
    seen = set()
    stack = list(exprs)
    while stack:
        e = stack.pop()
        if e.get_id() in seen:
            continue
        seen.add(e.get_id())
        if z3.is_quantifier(e):
            stack.append(e.body())
            for i in range(e.num_patterns()):
                stack.append(e.pattern(i))
            continue
        if z3.is_app(e):
            d = e.decl()
            if d.kind() == z3.Z3_OP_UNINTERPRETED and d.name() in names:
                n = names[d.name()]
                if n not in found:
                    found.add(n)
                    eng._define_spec(n)
                    if n in eng.spec_axioms:
                        stack.append(eng.spec_axioms[n][1])
            stack.extend(e.children())
    return found


def spec_axioms(eng, names, exclude_nat=()):
    out = []
    for n in sorted(names):
        if n not in eng.spec_axioms:
            continue
        params, body, nat = eng.spec_axioms[n]
        app = eng.spec_decls[n](*params)
        out.append(z3.ForAll(params, app == body, patterns=[app]))
        if nat and n not in exclude_nat:
            out.append(z3.ForAll(params, app >= 0, patterns=[app]))
    return out


def for_obligation(eng, run, o):
    out = []
    names = spec_symbols(eng, list(o.facts) + [o.goal])
    out += spec_axioms(eng, names)
    o.spec_names = sorted(names)
    if run is not None and getattr(run, "uses_bits", False):
        from . import bits
        out += bits.axioms()
    if run is not None and (getattr(run, "rev_pairs", None) or getattr(run, "zfill_terms", None) or getattr(run, "binval_terms", None) or getattr(run, "uses_strlib", False)):
        from . import strings
        out += strings.axioms(run)
    return out


# ---- refutation mode: recursive-function twins give models --------------------------------
_rec_cache = {}


def map_symbols(e, table, cache):
    def go(t):
        k = t.get_id()
        if k in cache:
            return cache[k]
        if z3.is_quantifier(t):
            vs = [z3.Const(t.var_name(i) + "!q", t.var_sort(i)) for i in range(t.num_vars())]
            body = z3.substitute_vars(t.body(), *reversed(vs))
            nb = go(body)
            r = z3.ForAll(vs, nb) if t.is_forall() else z3.Exists(vs, nb)
        elif z3.is_app(t):
            ch = [go(c) for c in t.children()]
            d = t.decl()
            if d.kind() == z3.Z3_OP_UNINTERPRETED and d.name() in table:
                r = table[d.name()](*ch)
            elif ch and any(not a.eq(b) for a, b in zip(ch, t.children())):
                r = d(*ch)
            else:
                r = t
        else:
            r = t
        cache[k] = r
        return r
    return go(e)


def rec_twins(eng, names):
    """Define z3 RecFunction twins for the given spec names (once per process)."""
    table = {}
    todo = []
    for n in sorted(names):
        if n in eng.spec_axioms:
            key = f"spec_{n}"
            if key not in _rec_cache:
                d = eng.spec_decls[n]
                sorts = [d.domain(i) for i in range(d.arity())] + [d.range()]
                _rec_cache[key] = z3.RecFunction(f"rec_{n}", *sorts)
                todo.append(n)
            table[key] = _rec_cache[key]
    full = dict(_rec_cache)
    for n in todo:
        params, body, nat = eng.spec_axioms[n]
        z3.RecAddDefinition(_rec_cache[f"spec_{n}"], params, map_symbols(body, full, {}))
    return full


def _has_quantifier(e):
    seen = set()
    stack = [e]
    while stack:
        t = stack.pop()
        if t.get_id() in seen:
            continue
        seen.add(t.get_id())
        if z3.is_quantifier(t):
            return True
        if z3.is_app(t):
            stack.extend(t.children())
    return False


def refute(eng, o, extra_nonspec, timeout_ms=10000):
    """Try to find a model of facts & not goal with recursive definitions unfolded by z3."""
    names = spec_symbols(eng, list(o.facts) + [o.goal])
    for n in names:
        if n in eng.spec_axioms and _has_quantifier(eng.spec_axioms[n][1]):
            return "skipped (a recursive spec with an inner quantifier cannot be a z3 recursive function)", None
    # every spec reachable must have a twin before any definition is added
    table = dict(rec_twins(eng, names))
    from . import builtins as B
    table.update(B.real_semantics_table())
    cache = {}
    s = z3.Solver()
    s.set("timeout", timeout_ms)
    for f in o.facts:
        s.add(map_symbols(f, table, cache))
    for f in extra_nonspec:
        s.add(f)
    s.add(z3.Not(map_symbols(o.goal, table, cache)))
    from .verify import _checked
    r = _checked(s, timeout_ms)
    if r == z3.sat:
        return "sat", s.model()
    return str(r), None


# ---- ground unfolding (quantifier free) -----------------------------------------------------
def _quantifiers_in(e, acc, seen):
    stack = [e]
    while stack:
        t = stack.pop()
        if t.get_id() in seen:
            continue
        seen.add(t.get_id())
        if z3.is_quantifier(t):
            if t.is_forall() and t.num_vars() == 1 and t.num_patterns() == 1:
                acc.append(t)
            continue
        if z3.is_app(t):
            stack.extend(t.children())


def _index_terms(exprs, seen_terms):
    """ground applications seq_nth(L, i) / Select(A, i) occurring in exprs: {(decl kind, L id): [(L, i)]}"""
    table = {}
    seen = set()
    stack = list(exprs)
    while stack:
        t = stack.pop()
        if t.get_id() in seen:
            continue
        seen.add(t.get_id())
        if z3.is_quantifier(t):
            continue
        if z3.is_app(t):
            d = t.decl()
            if t.num_args() == 2 and (d.name() == "seq_nth" or d.kind() == z3.Z3_OP_SELECT):
                key = (d.name() if d.kind() != z3.Z3_OP_SELECT else "select", t.arg(0).get_id())
                table.setdefault(key, []).append(t.arg(1))
            stack.extend(t.children())
    return table


def instantiate_elementwise(exprs, insts, done_q):
    """Manual e-matching for element-wise facts: for every  forall v. body  (single trigger
    seq_nth(L, v) or Select(A, v)) found inside `insts`, and every ground index i such that
    seq_nth(L, i) occurs in exprs+insts, the instance  Q => body[v := i]  (always sound)."""
    qs = []
    _quantifiers_in(z3.And(insts) if len(insts) > 1 else (insts[0] if insts else z3.BoolVal(True)), qs, set())
    if not qs:
        return []
    table = _index_terms(list(exprs) + list(insts), None)
    out = []
    for q in qs:
        pat = q.pattern(0)
        if pat.num_args() != 1:
            continue
        trig = pat.arg(0)
        if not (z3.is_app(trig) and trig.num_args() == 2 and z3.is_var(trig.arg(1))):
            continue
        d = trig.decl()
        key = (d.name() if d.kind() != z3.Z3_OP_SELECT else "select", trig.arg(0).get_id())
        for i in table.get(key, []):
            sig = (q.get_id(), i.get_id())
            if sig in done_q:
                continue
            done_q.add(sig)
            inst = z3.substitute_vars(q.body(), i)
            out.append(z3.Implies(q, inst))
    return out


def ground_unfold(eng, exprs, depth=1, limit=400, done=None):
    """Instances of the definitional axioms for the spec applications occurring in exprs,
    iterated `depth` times over the applications the instances introduce."""
    names = {f"spec_{n}": n for n in eng.spec_decls}
    out = []
    done = set() if done is None else done
    done_q = set()
    frontier = list(exprs)
    for _ in range(depth):
        apps = []
        seen = set()
        stack = list(frontier)
        while stack:
            e = stack.pop()
            if e.get_id() in seen:
                continue
            seen.add(e.get_id())
            if z3.is_quantifier(e):
                continue   # bound variables: not ground
            if z3.is_app(e):
                d = e.decl()
                if d.kind() == z3.Z3_OP_UNINTERPRETED and d.name() in names and e.get_id() not in done:
                    apps.append(e)
                stack.extend(e.children())
        frontier = []
        for a in apps:
            if len(out) > limit:
                return out
            done.add(a.get_id())
            n = names[a.decl().name()]
            eng._define_spec(n)
            if n not in eng.spec_axioms:
                continue
            params, body, nat = eng.spec_axioms[n]
            inst = z3.substitute(body, *[(p, a.arg(i)) for i, p in enumerate(params)])
            out.append(a == inst)
            if nat:
                out.append(a >= 0)
            frontier.append(inst)
        try:
            extra = instantiate_elementwise(exprs, out, done_q)
        except Exception:
            extra = []
        out.extend(extra)
        frontier.extend(extra)
        if not frontier:
            break
    return out
