"""C03: the index arithmetic of the emulator's sparse multiply, proved on the code itself.

UnitarySerializedEmulator._make_subcircuit cannot be brought under a pyvc contract as a whole (numpy arrays,
generators).  Its index arithmetic - the part the property's bit-order sentence is about - is pure integer
bit-twiddling in two loop nests.  On EVERY run this module

  1. re-reads unitary.py from the tree under test and cuts out, by AST position (nothing is copied or retyped):
       GATHER   the statements of `for i in range(hilb_dim):` that precede the column loop
                (mask = i; dsub_row = 0; dsub_bit = 1; for i_k in qind: ...)
       SCATTER  the statements of `for dsub_col in range(dsub.shape[0]):` that precede the accumulation
                (j = mask; dsub_bit = 1; for j_k in qind: ...)
       ACC      the accumulation statement itself
     What the extraction drops: everything around the segments (allocation, the serialiser loop, argument
     wiring, abs()**2) - those are exercised by the bounded stand-in only.  Inside the segments nothing is dropped.
  2. symbolically executes the two segments over bit-vectors of width W = 64 with the inner loops unrolled over
     qind = [q_0 .. q_{m-1}] for every arity m in 0..MAX_ARITY, all q_k, i, dsub_col, n symbolic, and
  3. discharges with z3 (QF_BV), for ALL register sizes n <= 62, ALL tuples of pairwise distinct qubit indices
     q_k < n, ALL row indices i < 2^n and ALL matrix columns < 2^m:
       G1  bit k of dsub_row  ==  bit q_k of i                 (matrix-index bit k <-> k-th qubit argument)
       G2  mask == i with the bits q_0..q_{m-1} cleared        (bystander qubits untouched)
       G3  dsub_row < 2^m                                      (row index within the gate matrix)
       S1  bit q_k of j == bit k of dsub_col ; S2 j agrees with mask elsewhere ; S3 j < 2^n
       B1  GATHER(SCATTER(mask, c)) == (mask, c)               (col |-> j is injective onto the mask class)
       B2  SCATTER(GATHER(i).mask, GATHER(i).row) == i         (and surjective)
     and the shape lemma  ACC ==  vec[i] += inp[j] * dsub[dsub_row, dsub_col]  (AST match).
     Together: vec[i] = sum_c dsub[row(i), c] * inp[j(i, c)] where c |-> j(i, c) enumerates exactly the indices
     that agree with i on the bystander qubits, with row(j(i,c)) = c - the definition of the gate matrix
     embedded on qubits q_0..q_{m-1} in the property's little-endian convention.  (That last sentence is the
     textbook reading of G/S/B, not itself mechanised.)

Python semantics assumed: int is a 64-bit vector.  Under the stated bounds (n <= 62, m <= n) no intermediate
value reaches bit 63, so the bit-vector operations agree with Python's unbounded integers.
A counter-model is replayed by running the extracted statements (compiled from the same AST nodes) under CPython
with the model's values and re-evaluating the violated lemma natively.
"""
import ast
import os
import time
import z3

from .classtable import REPO_SRC

W = 64
MAX_ARITY = {"quick": 3, "thorough": 5}
NMAX = 62


class KUnsupported(Exception):
    pass


# ------------------------------------------------------------------------------------------ extraction
def extract(src_root=None):
    path = os.path.join(src_root or os.environ.get("PYVC_REPO_SRC", REPO_SRC), "jaqalpaq", "emulator", "unitary.py")
    tree = ast.parse(open(path).read())
    fn = None
    for n in ast.walk(tree):
        if isinstance(n, ast.FunctionDef) and n.name == "_make_subcircuit":
            fn = n
    if fn is None:
        raise KUnsupported("_make_subcircuit not found")

    def is_range_for(n):
        return isinstance(n, ast.For) and isinstance(n.iter, ast.Call) and isinstance(n.iter.func, ast.Name) and n.iter.func.id == "range"

    rows = [n for n in ast.walk(fn) if is_range_for(n) and any(is_range_for(c) for c in n.body)]
    if len(rows) != 1:
        raise KUnsupported(f"expected one row loop containing a column loop, found {len(rows)}")
    row = rows[0]
    k = next(i for i, c in enumerate(row.body) if is_range_for(c))
    col = row.body[k]
    if row.body[k + 1:]:
        raise KUnsupported("statements after the column loop in the row loop")
    if not isinstance(row.target, ast.Name) or not isinstance(col.target, ast.Name):
        raise KUnsupported("loop targets")
    gather = row.body[:k]
    scatter = col.body[:-1]
    acc = col.body[-1]
    return {"path": path, "row_var": row.target.id, "col_var": col.target.id, "gather": gather, "scatter": scatter, "acc": acc,
            "lines": (row.lineno, getattr(row, "end_lineno", row.lineno)),
            "row_bound": ast.unparse(row.iter), "col_bound": ast.unparse(col.iter)}


# ------------------------------------------------------------------------------------------ BV evaluator
def bv(x):
    return z3.BitVecVal(x, W)


class Seg:
    """Symbolic execution of a statement list over bit-vectors; `lists` maps a list name to its elements."""

    def __init__(self, env, lists):
        self.env = dict(env)
        self.lists = lists

    def expr(self, e):
        if isinstance(e, ast.Name):
            if e.id not in self.env:
                raise KUnsupported(f"unbound name {e.id}")
            return self.env[e.id]
        if isinstance(e, ast.Constant) and isinstance(e.value, int) and not isinstance(e.value, bool):
            return bv(e.value)
        if isinstance(e, ast.BinOp):
            a, b = self.expr(e.left), self.expr(e.right)
            t = type(e.op)
            if t is ast.BitAnd:
                return a & b
            if t is ast.BitOr:
                return a | b
            if t is ast.BitXor:
                return a ^ b
            if t is ast.LShift:
                return a << b
            if t is ast.RShift:
                return z3.LShR(a, b)
            if t is ast.Add:
                return a + b
            if t is ast.Sub:
                return a - b
            if t is ast.Mult:
                return a * b
            raise KUnsupported(f"operator {t.__name__}")
        if isinstance(e, ast.UnaryOp) and isinstance(e.op, ast.Invert):
            return ~self.expr(e.operand)
        raise KUnsupported(f"expression {ast.dump(e)[:80]}")

    def truth(self, e):
        if isinstance(e, ast.Compare) and len(e.ops) == 1:
            a, b = self.expr(e.left), self.expr(e.comparators[0])
            t = type(e.ops[0])
            if t is ast.Eq:
                return a == b
            if t is ast.NotEq:
                return a != b
            if t is ast.Lt:
                return z3.ULT(a, b)
            if t is ast.LtE:
                return z3.ULE(a, b)
            if t is ast.Gt:
                return z3.UGT(a, b)
            if t is ast.GtE:
                return z3.UGE(a, b)
            raise KUnsupported("comparison")
        if isinstance(e, ast.UnaryOp) and isinstance(e.op, ast.Not):
            return z3.Not(self.truth(e.operand))
        return self.expr(e) != bv(0)

    def run(self, stmts):
        for s in stmts:
            if isinstance(s, ast.Assign) and len(s.targets) == 1 and isinstance(s.targets[0], ast.Name):
                self.env[s.targets[0].id] = self.expr(s.value)
            elif isinstance(s, ast.AugAssign) and isinstance(s.target, ast.Name):
                self.env[s.target.id] = self.expr(ast.BinOp(left=ast.Name(id=s.target.id, ctx=ast.Load()), op=s.op, right=s.value))
            elif isinstance(s, ast.If):
                c = self.truth(s.test)
                a = Seg(self.env, self.lists)
                a.run(s.body)
                b = Seg(self.env, self.lists)
                b.run(s.orelse)
                for name in set(a.env) | set(b.env):
                    if name in a.env and name in b.env:
                        self.env[name] = z3.If(c, a.env[name], b.env[name])
                    # a name bound on one side only is not visible afterwards (none in the kernel)
            elif isinstance(s, ast.For) and isinstance(s.target, ast.Name) and isinstance(s.iter, ast.Name) and not s.orelse:
                if s.iter.id not in self.lists:
                    raise KUnsupported(f"loop over {s.iter.id}")
                for item in self.lists[s.iter.id]:
                    self.env[s.target.id] = item
                    self.run(s.body)
            elif isinstance(s, ast.Expr) and isinstance(s.value, ast.Constant):
                pass
            elif isinstance(s, ast.Pass):
                pass
            else:
                raise KUnsupported(f"statement {type(s).__name__} at line {getattr(s, 'lineno', '?')}")
        return self.env


def bit(x, k):
    """bit k (a bit-vector) of x as a Bool"""
    return (z3.LShR(x, k) & bv(1)) == bv(1)


def native_run(stmts, env, lists):
    mod = ast.Module(body=[ast.fix_missing_locations(s) for s in stmts], type_ignores=[])
    g = dict(env)
    g.update(lists)
    exec(compile(mod, "<extracted from unitary.py>", "exec"), {}, g)
    return g


# ------------------------------------------------------------------------------------------ lemmas
def _lemmas(K, m):
    """-> list of (name, assumptions, goal(z3), native_check(model values) -> bool violated)"""
    rv, cv = K["row_var"], K["col_var"]
    n = z3.BitVec("n", W)
    i = z3.BitVec("i", W)
    c = z3.BitVec("c", W)
    q = [z3.BitVec(f"q{k}", W) for k in range(m)]
    pre = [z3.ULE(n, bv(NMAX)), z3.ULE(bv(m), n), z3.LShR(i, n) == bv(0), z3.ULT(c, bv(1 << m))]
    pre += [z3.ULT(qk, n) for qk in q]
    pre += [q[a] != q[b] for a in range(m) for b in range(a + 1, m)]
    qmask = bv(0)
    for qk in q:
        qmask = qmask | (bv(1) << qk)
    g = Seg({rv: i}, {"qind": q}).run(K["gather"])
    need = ("mask", "dsub_row")
    for nm in need:
        if nm not in g:
            raise KUnsupported(f"gather segment does not define {nm}")
    mask, row = g["mask"], g["dsub_row"]
    s = Seg({"mask": mask, cv: c, rv: i, "dsub_row": row}, {"qind": q}).run(K["scatter"])
    if "j" not in s:
        raise KUnsupported("scatter segment does not define j")
    j = s["j"]
    # scatter from an arbitrary bystander mask (for B1)
    mk = z3.BitVec("mk", W)
    s2 = Seg({"mask": mk, cv: c}, {"qind": q}).run(K["scatter"])
    j2 = s2["j"]
    g2 = Seg({rv: j2}, {"qind": q}).run(K["gather"])
    # B2: scatter(gather(i).mask, gather(i).row)
    s3 = Seg({"mask": mask, cv: row}, {"qind": q}).run(K["scatter"])
    out = []
    out.append(("G1:matrix-row-bit-k==state-bit-q_k", pre, z3.And([bit(row, bv(k)) == bit(i, q[k]) for k in range(m)]) if m else z3.BoolVal(True)))
    out.append(("G2:mask==i-with-argument-bits-cleared", pre, mask == (i & ~qmask)))
    out.append(("G3:row<2^m", pre, z3.ULT(row, bv(1 << m))))
    out.append(("S1:state-bit-q_k-of-j==column-bit-k", pre, z3.And([bit(j, q[k]) == bit(c, bv(k)) for k in range(m)]) if m else z3.BoolVal(True)))
    out.append(("S2:j-agrees-with-i-off-the-arguments", pre, (j & ~qmask) == (i & ~qmask)))
    out.append(("S3:j<2^n", pre, z3.LShR(j, n) == bv(0)))
    preB = pre[:2] + pre[3:] + [z3.LShR(mk, n) == bv(0), (mk & qmask) == bv(0)]
    out.append(("B1:gather(scatter(mask,c))==(mask,c)", preB, z3.And(g2["mask"] == mk, g2["dsub_row"] == c)))
    out.append(("B2:scatter(gather(i))==i", pre, s3["j"] == i))
    return out, {"n": n, "i": i, "c": c, "mk": mk, "q": q}


def _native_violation(K, name, vals, m):
    """Re-evaluate the lemma under CPython on the extracted statements. True = lemma violated natively."""
    rv, cv = K["row_var"], K["col_var"]
    q = vals["q"]
    qmask = 0
    for x in q:
        qmask |= 1 << x
    i, c, mk = vals["i"], vals["c"], vals["mk"]
    g = native_run(K["gather"], {rv: i}, {"qind": list(q)})
    tag = name.split(":")[0]
    if tag == "G1":
        return any(((g["dsub_row"] >> k) & 1) != ((i >> q[k]) & 1) for k in range(m))
    if tag == "G2":
        return g["mask"] != (i & ~qmask)
    if tag == "G3":
        return not (0 <= g["dsub_row"] < (1 << m))
    if tag in ("S1", "S2", "S3"):
        s = native_run(K["scatter"], {"mask": g["mask"], cv: c, rv: i, "dsub_row": g["dsub_row"]}, {"qind": list(q)})
        j = s["j"]
        if tag == "S1":
            return any(((j >> q[k]) & 1) != ((c >> k) & 1) for k in range(m))
        if tag == "S2":
            return (j & ~qmask) != (i & ~qmask)
        return not (0 <= j < (1 << vals["n"]))
    if tag == "B1":
        s = native_run(K["scatter"], {"mask": mk, cv: c}, {"qind": list(q)})
        g2 = native_run(K["gather"], {rv: s["j"]}, {"qind": list(q)})
        return not (g2["mask"] == mk and g2["dsub_row"] == c)
    if tag == "B2":
        s = native_run(K["scatter"], {"mask": g["mask"], cv: g["dsub_row"]}, {"qind": list(q)})
        return s["j"] != i
    return False


def _acc_shape(K):
    """vec[<row>] += inp[j] * dsub[dsub_row, <col>]  (either operand order of the product)"""
    a = K["acc"]
    want1 = f"vec[{K['row_var']}] += inp[j] * dsub[dsub_row, {K['col_var']}]"
    want2 = f"vec[{K['row_var']}] += dsub[dsub_row, {K['col_var']}] * inp[j]"
    got = ast.unparse(a)
    return got in (want1, want2), got, want1


def run(prop, tier):
    t0 = time.time()
    out = []
    assumptions = [f"kernel lemmas: Python int modelled as {W}-bit vector; sound for registers of at most {NMAX} qubits (no value reaches bit 63)",
                   "kernel lemmas: the step from G/S/B to 'vec = (embedded gate matrix) . inp' is the textbook reading, not mechanised",
                   "kernel lemmas cover the extracted segments only: allocation, serialisation order, argument wiring and abs()**2 of _make_subcircuit are exercised by the bounded stand-in"]

    def ob(name, result, solver, reason="", note=None, t=0.0, witness=None, native=None):
        d = {"id": f"{prop}/kernel:{name}", "base_id": f"kernel:{name}", "kind": "data", "result": result, "solver": solver, "time": round(t, 3),
             "role": "plain", "reason": reason, "note": note, "line": None, "smt2": None, "findings": None}
        if witness is not None:
            d["witness"] = witness
        if native is not None:
            d["native"] = native
        out.append(d)

    try:
        K = extract()
    except KUnsupported as ex:
        ob("extract", "undecided", "ast", reason=f"extraction failed: {ex}", note="the kernel no longer has the shape the extractor cuts; lemmas not generated")
        return {"obligations": out, "assumptions": assumptions, "summary": {"extracted": None}}
    ok, got, want = _acc_shape(K)
    ob("ACC:accumulation-shape", "discharged" if ok else "failed", "ast-match", note=None if ok else f"accumulation statement is `{got}`, the lemmas are about `{want}`",
       native=None if ok else {"verdict": "violation", "detail": f"the statement executed by CPython is `{got}`"}, witness=None if ok else {"statement": got})
    wantb = ("range(hilb_dim)", "range(dsub.shape[0])")
    okb = (K["row_bound"], K["col_bound"]) == wantb
    ob("BOUNDS:rows-range(2^n)-columns-range(matrix-dimension)", "discharged" if okb else "failed", "ast-match",
       note=None if okb else f"loops run over {K['row_bound']} / {K['col_bound']}, expected {wantb}",
       native=None if okb else {"verdict": "violation", "detail": f"loop bounds in the executed code: {K['row_bound']} / {K['col_bound']}"},
       witness=None if okb else {"bounds": [K["row_bound"], K["col_bound"]]})
    for m in range(0, MAX_ARITY.get(tier, 3) + 1):
        try:
            lem, V = _lemmas(K, m)
        except KUnsupported as ex:
            ob(f"arity{m}", "undecided", "bv-symexec", reason=f"outside the evaluator's subset: {ex}")
            continue
        for name, pre, goal in lem:
            t1 = time.time()
            s = z3.SolverFor("QF_BV")
            s.set("timeout", 60000)
            for p_ in pre:
                s.add(p_)
            s.add(z3.Not(goal))
            r = s.check()
            dt = time.time() - t1
            if r == z3.unsat:
                ob(f"arity{m}/{name}", "discharged", "z3-qfbv", t=dt)
            elif r == z3.sat:
                mdl = s.model()

                def val(x):
                    return mdl.eval(x, model_completion=True).as_long()
                vals = {"n": val(V["n"]), "i": val(V["i"]), "c": val(V["c"]), "mk": val(V["mk"]), "q": [val(x) for x in V["q"]]}
                try:
                    bad = _native_violation(K, name, vals, m)
                    native = {"verdict": "violation" if bad else "not-reproduced", "detail": f"extracted statements run under CPython with {vals}"}
                except Exception as ex:
                    native = {"verdict": "error", "detail": f"{type(ex).__name__}: {ex}"}
                ob(f"arity{m}/{name}", "failed", "z3-qfbv", reason="sat", note=f"counter-model {vals}", t=dt, witness=vals, native=native)
            else:
                ob(f"arity{m}/{name}", "undecided", "z3-qfbv", reason=str(r), t=dt)
    # vacuity: the preconditions are satisfiable for every arity
    for m in range(0, MAX_ARITY.get(tier, 3) + 1):
        try:
            lem, V = _lemmas(K, m)
        except KUnsupported:
            continue
        s = z3.SolverFor("QF_BV")
        for p_ in lem[0][1]:
            s.add(p_)
        if s.check() != z3.sat:
            ob(f"arity{m}/vacuity", "undecided", "z3-qfbv", reason="preconditions unsatisfiable: lemmas would hold vacuously")
    return {"obligations": out, "assumptions": assumptions,
            "summary": {"extracted": {"file": K["path"], "row_loop_lines": K["lines"], "gather": [ast.unparse(s) for s in K["gather"]],
                                      "scatter": [ast.unparse(s) for s in K["scatter"]], "acc": ast.unparse(K["acc"])},
                        "arities": list(range(0, MAX_ARITY.get(tier, 3) + 1)), "width": W, "max_qubits": NMAX, "wall_s": round(time.time() - t0, 2)}}
