"""Native side (runs under /venv/bin/python with the real jaqalpaq): rebuild concretised
inputs, run real functions under their executable contracts, replay files."""
import importlib
import importlib.util
import inspect
import json
import os
import sys
import traceback

HERE = os.path.dirname(os.path.dirname(os.path.abspath(__file__)))
if HERE not in sys.path:
    sys.path.insert(0, HERE)

from pyvc import dsl  # noqa: E402


class _ContractFinder:
    """`import contracts_<name>` loads /verif/contracts/<name>.py (sidecar files import each other)."""

    @staticmethod
    def find_spec(name, path=None, target=None):
        if name.startswith("contracts_"):
            fn = os.path.join(HERE, "contracts", name[len("contracts_"):] + ".py")
            if os.path.exists(fn):
                return importlib.util.spec_from_file_location(name, fn)
        return None


if not any(isinstance(f, type) and f.__name__ == "_ContractFinder" for f in sys.meta_path):
    sys.meta_path.append(_ContractFinder)


def load_contracts():
    d = os.path.join(HERE, "contracts")
    mods = {}
    for fn in sorted(os.listdir(d)):
        if fn.endswith(".py") and not fn.startswith("_"):
            mods[fn[:-3]] = importlib.import_module("contracts_" + fn[:-3])
    return mods


def find_class(key):
    mod, name = key.split(":")
    if mod == "builtins":
        import builtins
        import collections
        return getattr(builtins, name, None) or getattr(collections, name, None)
    m = importlib.import_module(mod)
    return getattr(m, name)


def real_function(key):
    """key 'core.register:Register.resolve_qubit' -> (callable taking all params incl. self, is_method)"""
    mod, qual = key.split(":")
    if not mod.startswith("jaqalpaq"):
        mod = "jaqalpaq." + mod
    if "#" in qual:
        qual = qual.split("#")[0]
    m = importlib.import_module(mod)
    obj = m
    parts = qual.split(".")
    for p in parts:
        if p == "<locals>":
            raise LookupError("nested function cannot be called natively")
        obj = inspect.getattr_static(obj, p) if inspect.isclass(obj) else getattr(obj, p)
    if isinstance(obj, property):
        return obj.fget
    if isinstance(obj, (staticmethod, classmethod)):
        return obj.__func__
    return obj


class Rebuilder:
    def __init__(self, desc):
        self.objs = desc.get("objects", {})
        self.built = {}

    def value(self, d):
        k = d["k"]
        if k == "none":
            return None
        if k == "all":
            return all
        if k in ("bool", "int", "float", "str"):
            return d["v"]
        if k == "enum":
            cls = find_class(d["cls"])
            return getattr(cls, d["name"]) if d.get("name") else list(cls)[0]
        if k == "class":
            return find_class(d["cls"])
        if k == "ref":
            return self.obj(str(d["id"]))
        if k == "error":
            return None
        raise ValueError(k)

    def obj(self, oid):
        if oid in self.built:
            return self.built[oid]
        d = self.objs[oid]
        k = d["k"]
        if k in ("list", "deque"):
            res = []
            self.built[oid] = res
            res.extend(self.value(x) for x in d["items"])
            if k == "deque":
                import collections
                res = collections.deque(res)
                self.built[oid] = res
            return res
        if k == "tuple":
            res = tuple(self.value(x) for x in d["items"])
            self.built[oid] = res
            return res
        if k == "dict":
            res = {}
            self.built[oid] = res
            for kk, vv in d["items"]:
                try:
                    res[self.value(kk)] = self.value(vv)
                except TypeError:
                    pass
            return res
        if k == "set":
            res = set()
            self.built[oid] = res
            return res
        if k == "slice":
            f = d["fields"]
            res = slice(self.value(f["start"]), self.value(f["stop"]), self.value(f["step"]))
            self.built[oid] = res
            return res
        if k == "function":
            res = lambda *a, **kw: None
            self.built[oid] = res
            return res
        if k == "opaque":
            res = object()
            self.built[oid] = res
            return res
        cls = find_class(d["cls"])
        res = object.__new__(cls)
        self.built[oid] = res
        for f, v in d["fields"].items():
            try:
                object.__setattr__(res, f, self.value(v))
            except Exception:
                pass
        return res


def clause_call(fn, env):
    names = list(inspect.signature(fn).parameters)
    return fn(*[env[n] for n in names])


def contract_clauses(ccls):
    d = ccls.__dict__
    return {k: v for k, v in d.items() if callable(v) and not k.startswith("__")}, d


def monitor(ccls, fn, env, param_names):
    """Run fn on env under contract ccls. Returns dict(verdict=ok|violation|precondition|error, ...)."""
    cl, d = contract_clauses(ccls)
    try:
        if "requires" in cl and not clause_call(cl["requires"], env):
            return {"verdict": "precondition", "detail": "requires is false on this input"}
    except Exception as ex:
        return {"verdict": "precondition", "detail": f"requires raised {type(ex).__name__}: {ex}"}
    # raise conditions are pre-state predicates
    conds = {}
    for k, f in cl.items():
        if k.startswith("raises_"):
            rest = k[len("raises_"):]
            mode = "iff"
            if rest.endswith("_when"):
                rest, mode = rest[:-5], "when"
            try:
                conds[rest] = (mode, bool(clause_call(f, env)))
            except Exception as ex:
                conds[rest] = (mode, None)
    ro = d.get("raises_only")
    if isinstance(ro, str):
        ro = (ro,)
    # *args / **kwargs parameters are unpacked, as a caller would
    pos, kw = [], {}
    try:
        sig_params = inspect.signature(fn).parameters
    except (TypeError, ValueError):
        sig_params = {}
    for n in param_names:
        kind = sig_params[n].kind if n in sig_params else None
        if kind == inspect.Parameter.VAR_POSITIONAL:
            pos.extend(list(env[n]))
        elif kind == inspect.Parameter.VAR_KEYWORD:
            kw.update(dict(env[n]))
        else:
            pos.append(env[n])
    try:
        result = fn(*pos, **kw)
        exc = None
    except BaseException as ex:   # noqa
        result = None
        exc = ex
    out = {"verdict": "ok", "failed": []}
    if exc is None:
        env2 = dict(env)
        env2["result"] = result
        out["result"] = repr(result)[:300]
        for k, f in cl.items():
            if k.startswith("ensures"):
                try:
                    ok = bool(clause_call(f, env2))
                except Exception as ex:
                    ok = False
                    out.setdefault("notes", []).append(f"{k} raised {type(ex).__name__}: {ex}")
                if not ok:
                    out["failed"].append(k)
        for e, (mode, c) in conds.items():
            if c:
                out["failed"].append(f"raises_{e}: condition holds but the call returned normally")
    else:
        out["exception"] = f"{type(exc).__name__}: {exc}"[:300]
        names = [c.__name__ for c in type(exc).__mro__]
        allowed = set(ro or ()) | set(conds)
        if (ro is not None or conds) and not any(n in allowed for n in names):
            if ro is not None:
                out["failed"].append(f"raises_only: {type(exc).__name__} escaped")
        for e, (mode, c) in conds.items():
            if e in names and mode == "iff" and c is False:
                out["failed"].append(f"raises_{e}: raised although the condition is false")
    if out["failed"]:
        out["verdict"] = "violation"
    return out


def replay_model(key, contract_name, desc, mods=None):
    """Rebuild the concretised input and run the real function under the named contract."""
    mods = mods or load_contracts()
    ccls = None
    for m in mods.values():
        c = getattr(m, contract_name, None)
        if c is not None and getattr(c, "_key", None) is not None:
            ccls = c
            break
    if ccls is None:
        return {"verdict": "error", "detail": f"contract class {contract_name} not found"}
    try:
        fn = real_function(key)
    except LookupError as ex:
        return {"verdict": "error", "detail": str(ex)}
    rb = Rebuilder(desc)
    env = {}
    for n, d in desc["params"].items():
        try:
            env[n] = rb.value(d)
        except Exception as ex:
            return {"verdict": "error", "detail": f"cannot rebuild {n}: {ex}"}
    sig = inspect.signature(fn)
    pnames = [p for p in sig.parameters]
    for p in pnames:
        if p not in env:
            return {"verdict": "error", "detail": f"no value for parameter {p}"}
    try:
        r = monitor(ccls, fn, env, pnames)
    except Exception as ex:
        return {"verdict": "error", "detail": traceback.format_exc()[-800:]}
    r["input"] = {n: _short(env[n]) for n in pnames}
    return r


def _short(v):
    try:
        r = repr(v)
    except Exception as ex:
        r = f"<{type(v).__name__} (repr failed: {type(ex).__name__})>"
    return r[:400]


def main(argv):
    cmd = argv[0]
    if cmd == "replay-models":
        # stdin: JSON list of {key, contract, desc}; stdout: JSON list of results
        items = json.load(sys.stdin)
        mods = load_contracts()
        out = []
        import signal

        class _Timeout(BaseException):
            pass

        def _alarm(signum, frame):
            raise _Timeout()

        signal.signal(signal.SIGALRM, _alarm)
        sys.setrecursionlimit(3000)
        for it in items:
            signal.alarm(5)
            try:
                out.append(replay_model(it["key"], it["contract"], it["desc"], mods))
            except _Timeout:
                out.append({"verdict": "timeout", "detail": "the real function did not return within 5 s on the concretised input"})
            except BaseException:
                out.append({"verdict": "error", "detail": traceback.format_exc()[-800:]})
            finally:
                signal.alarm(0)
        json.dump(out, sys.stdout)
        return 0
    if cmd == "replay-file":
        rf = json.load(open(argv[1]))
        if rf.get("kind") == "model":
            r = replay_model(rf["function"], rf["contract"], rf["input_model"])
            print(json.dumps(r, indent=1))
            return 1 if r["verdict"] == "violation" else 0
        if rf.get("kind") == "program":
            from bounded import common
            return common.replay_program(rf)
        print("nothing to replay natively: ", rf.get("note", ""))
        return 0
    return 2


if __name__ == "__main__":
    sys.exit(main(sys.argv[1:]))
