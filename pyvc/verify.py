"""Driver: contract -> runs -> obligations -> solver verdicts."""
import ast
import os
import time
import traceback
import z3

from . import smt as S
from .values import *
from .symexec import (Engine, Run, Frame, Obligation, Unsupported, PyRaise, ReturnSig, PathEnd, Infeasible,
                      BreakSig, ContinueSig)
from .classtable import ClassInfo, FuncInfo
from . import axioms

MAX_RUNS = 400
FUNC_BUDGET_S = float(os.environ.get('PYVC_FUNC_BUDGET', '400'))
import sys
sys.setrecursionlimit(int(os.environ.get("PYVC_RECLIMIT", "6000")))


class FunctionReport:
    def __init__(self, key, contract_name):
        self.key = key
        self.contract = contract_name
        self.status = "ok"           # ok | unsupported | error
        self.reason = None
        self.obligations = []
        self.canary = None
        self.runs = 0
        self.paths = 0
        self.vacuous_paths = 0
        self.unchecked_implicit = 0
        self.assumptions = set()
        self.file = None
        self.lines = None
        self.ast_hash = None
        self.file_sha256 = None
        self.time = 0.0
        self.self_cls = None


def locate(eng, key):
    """FuncInfo or (parent FuncInfo, nested FunctionDef) for keys with .<locals>."""
    if ".<locals>." in key:
        parent_key, nested = key.split(".<locals>.", 1)
        pfi = eng.ct.find_function(parent_key)
        for n in ast.walk(pfi.node):
            if isinstance(n, ast.FunctionDef) and n.name == nested and n is not pfi.node:
                return pfi, n
        raise KeyError(key)
    return eng.ct.find_function(key), None


def verify_contract(eng, c, prop, self_cls=None, skip_ids=None):
    key = eng._norm(c.key)
    rep = FunctionReport(key, c.name)
    t0 = time.time()
    try:
        fi, nested = locate(eng, c.key)
    except KeyError as ex:
        rep.status = "unsupported"
        rep.reason = f"function not found: {ex}"
        return rep
    mi = eng.ct.modules[fi.module]
    rep.file = os.path.relpath(mi.path, "/repo") if mi.path.startswith("/repo") else mi.path
    rep.file_sha256 = mi.sha256
    node = nested if nested is not None else fi.node
    rep.lines = [node.lineno, node.end_lineno]
    import hashlib
    rep.ast_hash = hashlib.sha256(ast.dump(node).encode()).hexdigest()[:16]
    if self_cls is None and fi.cls is not None and nested is None and fi.kind in ("method", "property"):
        self_cls = fi.cls
    rep.self_cls = self_cls.name if self_cls is not None else None
    pending = [[]]
    seen_obl = set()
    try:
        while pending:
            prefix = pending.pop()
            rep.runs += 1
            if rep.runs > MAX_RUNS:
                raise Unsupported("too many paths")
            if time.time() - t0 > FUNC_BUDGET_S:
                raise Unsupported(f"symbolic execution budget of {FUNC_BUDGET_S}s exceeded")
            run = Run(eng, prefix)
            run.deadline = t0 + FUNC_BUDGET_S
            eng.run = run
            run.fkey = f"{prop}/{key}" + (f"[{self_cls.name}]" if self_cls is not None and fi.cls is not None and self_cls is not fi.cls else "")
            run.prop = prop
            run.verifying_key = key
            run.own_contract = c
            run.track_exc = bool(c.raises()) or c.raises_only() is not None
            one_path(eng, run, c, fi, nested, self_cls, rep)
            for o in run.obligations:
                sig = (o.id, tuple(f.get_id() for f in o.facts), o.goal.get_id())
                if sig in seen_obl:
                    continue
                seen_obl.add(sig)
                o._keep = (run,)   # keep terms alive
                rep.obligations.append(o)
            rep.unchecked_implicit += run.unchecked_implicit
            rep.assumptions |= run.assumptions_used
            if run.uses_strlib or run.rev_pairs or run.zfill_terms:
                from . import strings
                rep.assumptions.add(strings.ASSUMPTION_TEXT)
            pending.extend(run.alternatives)
    except Unsupported as ex:
        rep.status = "unsupported"
        rep.reason = str(ex)
        if os.environ.get("PYVC_DEBUG"):
            traceback.print_exc()
    except RecursionError:
        rep.status = "unsupported"
        rep.reason = "recursion limit in executor"
        if os.environ.get("PYVC_DEBUG"):
            tb = traceback.format_exc().splitlines()
            print("\n".join(tb[:12] + ["..."] + tb[-60:]))
    except Exception as ex:
        # an internal failure while executing *this* function is never a verdict: the function
        # falls back to its bounded stand-in; obligations generated so far are kept
        rep.status = "unsupported"
        rep.reason = f"internal error {type(ex).__name__}: {str(ex)[:200]}"
        rep.internal_error = traceback.format_exc()[-1500:]
        if os.environ.get("PYVC_DEBUG"):
            traceback.print_exc()
    # stable numbering of same-named obligations (per path)
    counts = {}
    for o in rep.obligations:
        n = counts.get(o.id, 0)
        counts[o.id] = n + 1
        o.base_id = o.id
        o.id = f"{o.id}@p{n}"
    rep.time = time.time() - t0
    return rep


def assume_lemmas(eng, run, c):
    """Lemmas cited by a contract or lemma (`uses_lemmas`): each is proved on its own and enters here as a quantified fact."""
    for lname in (c.attrs.get("uses_lemmas") or ()):
        # a lemma proved on its own (same run, same property or another): available here as a quantified fact
        lc = eng.cs.lemma_classes[lname]
        lclaim = lc.methods["claim"]
        lnames = [a_.arg for a_ in lclaim.args.args]
        lv = {n_: TV(z3.Const(f"lem_{lname}_{n_}", S.Val)) for n_ in lnames}
        lpre = eng.eval_clause(lc, lc.requires(), lv).truth() if lc.requires() is not None else z3.BoolVal(True)
        lcl = eng.eval_clause(lc, lclaim, lv).truth()
        ltr = lc.methods.get("trigger")
        lbody = z3.Implies(lpre, lcl)
        lvs = [lv[n_].t for n_ in lnames]
        try:
            if ltr is not None:
                tt = eng.to_tv(eng.eval_clause(lc, ltr, lv))
                run.assume(z3.ForAll(lvs, lbody, patterns=[tt.truth() if tt.sort == "bool" else tt.val()]))
            else:
                run.assume(z3.ForAll(lvs, lbody))
        except z3.Z3Exception:
            run.assume(z3.ForAll(lvs, lbody))
        run.assumptions_used.add(f"lemma {lname} (proved separately by induction, see lemma:{lname})")


def one_path(eng, run, c, fi, nested, self_cls, rep):
    node = nested if nested is not None else fi.node
    params = {}
    a = node.args
    names = [p.arg for p in a.args] + [p.arg for p in a.kwonlyargs]
    for n in names:
        params[n] = TV(z3.Const(f"p_{n}", S.Val))
    if a.vararg is not None:
        params[a.vararg.arg] = TV(z3.Const(f"p_{a.vararg.arg}", S.Val))
        run.assume(eng.isinstance_exact(params[a.vararg.arg].t, [eng.ct.ext["tuple"]]))
    if a.kwarg is not None:
        params[a.kwarg.arg] = TV(z3.Const(f"p_{a.kwarg.arg}", S.Val))
        run.assume(eng.isinstance_exact(params[a.kwarg.arg].t, [eng.ct.ext["dict"]]))
    # free variables of a nested function / extra contract parameters are symbolic too
    req = c.requires()
    extra_names = []
    for m in list(c.methods.values()):
        if m.name.startswith(("inv_", "var_")):
            continue
        for p in m.args.args:
            if p.arg not in params and p.arg not in ("result", "_k") and p.arg not in c.ghost():
                if p.arg not in extra_names:
                    extra_names.append(p.arg)
    if nested is None:
        extra_names = []
    for n in extra_names:
        params[n] = TV(z3.Const(f"p_{n}", S.Val))
    for g in c.ghost():
        params[g] = TV(z3.Const(f"p_ghost_{g}", S.Val))
    for n, v in params.items():
        run.assume(z3.Implies(S.is_VObj(v.t), S.oid(v.t) < S.ALLOC0))
    if self_cls is not None and nested is None and fi.kind in ("method", "property") and a.args:
        sv_ = params[a.args[0].arg]
        run.assume(S.is_VObj(sv_.t))
        run.assume(S.ocls(S.oid(sv_.t)) == eng.clsid(self_cls))
        run.exact_cls[sv_.t.get_id()] = self_cls
    run.root_bindings = dict(params)
    run.modifies = c.modifies()
    run.mod_bound = params
    if req is not None:
        run.merge_depth += 0
        pre = eng.eval_clause(c, req, params).truth()
        run.assume(pre)
    assume_lemmas(eng, run, c)
    if not run.quick_feasible(z3.BoolVal(True)) or not eng.feasible(run.facts, z3.BoolVal(True)):
        rep.status = "error"
        rep.reason = "precondition unsatisfiable (vacuous contract)"
        raise PathEnd() if False else Unsupported("precondition unsatisfiable (vacuous contract)")
    dec = c.decreases()
    if dec is not None:
        run.own_measure = eng.eval_clause(c, dec, params).as_int()
        run.assume(run.own_measure >= 0) if False else None
        run.obligation("decreases-nonneg", run.own_measure >= 0, node)
    pre_state = run.snapshot_state()
    frame = Frame(dict((k, v) for k, v in params.items() if k in names or (a.vararg and k == a.vararg.arg) or (a.kwarg and k == a.kwarg.arg)),
                  module=fi.module, cls=fi.cls, fi=None if nested is not None else fi)
    if nested is not None:
        outer = Frame({k: v for k, v in params.items() if k in extra_names}, module=fi.module, cls=fi.cls)
        outer.qualname = fi.qualname
        outer.vars[nested.name] = Closure(nested, outer, None, fi.cls, fi.qualname + ".<locals>." + nested.name)   # recursion
        frame = Frame({k: v for k, v in params.items() if k in names}, parent=outer)
        frame.func_node = nested
        frame.qualname = fi.qualname + ".<locals>." + nested.name
    else:
        frame.qualname = fi.qualname
        if fi.kind == "classmethod" and a.args and fi.cls is not None:
            # closed class table: a classmethod is called on the class that defines it (no subclass overrides it)
            frame.vars[a.args[0].arg] = ClassRef(fi.cls)
            run.assumptions_used.add(f"classmethod {fi.qualname}: cls is the defining class (closed class table)")
    frame.is_verified_root = True
    if a.kwarg is not None and nested is None:
        # **kwargs is a dict created by the call itself: the callee owns it.  Bind the local to a FRESH dict whose
        # contents are those of the symbolic parameter (clauses keep talking about the parameter = its entry value).
        pk = params[a.kwarg.arg].t
        fr = eng.B.new_dict(eng)
        xi = z3.Int(run.fresh_name("kwi"))
        xk = z3.Const(run.fresh_name("kwk"), S.Val)
        fr.length = S.seq_len(S.dict_keys(pk))
        run.assume(fr.length >= 0)
        fr.arr = z3.Lambda([xi], S.seq_nth(S.dict_keys(pk), xi))
        fr.has = z3.Lambda([xk], S.dict_has(pk, xk))
        fr.get = z3.Lambda([xk], S.dict_get(pk, xk))
        frame.vars[a.kwarg.arg] = TV(fr.term)
    if fi.cls is not None and nested is None and fi.kind in ("method", "property") and a.args:
        frame.self_val = params[a.args[0].arg]
    # *args / **kwargs are symbolic world containers
    outcome = None
    try:
        try:
            run.inline_stack.append(fi.key)
            gen_out = None
            if getattr(fi, "is_generator", False) and nested is None:
                # a generator under contract: `result` is the list of the values it yields (pure generators only)
                if not eng.B.generator_is_pure(fi.node):
                    raise Unsupported("generator with interleaving side effects under contract")
                gen_out = eng.B.new_list(eng)
                run.yield_stack.append(gen_out)
                run.assumptions_used.add("side-effect-free generators are evaluated eagerly (equivalent to lazy evaluation for pure generators)")
            eng.exec_block(node.body, frame)
            outcome = ("return", TV(gen_out.term) if gen_out is not None else TV_NONE)
        except ReturnSig as r:
            outcome = ("return", r.value if gen_out is None else TV(gen_out.term))
        except PyRaise as pr:
            outcome = ("raise", pr)
    except (PathEnd, Infeasible):
        return
    except (BreakSig, ContinueSig):
        raise Unsupported("break/continue outside loop")
    rep.paths += 1
    if not c.modifies() or True:
        # every store executed on this path hit a fresh object or the modifies clause (checked by the
        # executor at each store; a violating store would have produced a failing `frame@L` obligation)
        run.obligation("frame", z3.BoolVal(True), node, name="all-stores", note=f"{run.stores_checked} stores/mutations on this path, all into fresh objects or the modifies clause {list(c.modifies())}")
    if not eng.feasible(run.facts, z3.BoolVal(True)):
        rep.vacuous_paths += 1
        return
    b = dict(params)
    if outcome[0] == "return":
        res = outcome[1]
        if isinstance(res, PyObj) and not isinstance(res, (TupleVal,)) and not hasattr(res, "length"):
            from .symexec import SeqView
            if not isinstance(res, SeqView):
                raise Unsupported(f"function returns python-side value {res}")
        res = eng.to_tv(res)
        run.freeze_value(res)
        b["result"] = res
        for (name, fn) in c.ensures():
            goal = eng.eval_clause(c, fn, b, pre_run_state=pre_state).truth()
            run.obligation("post", goal, node, name=name)
        for (ename, mode, fn) in c.raises():
            cond = eng.eval_clause(c, fn, b, pre_run_state=pre_state)
            saved = run.old_state
            # raise conditions are pre-state predicates
            cond = _eval_pre(eng, c, fn, params, pre_state)
            run.obligation("raises-iff" if mode == "iff" else "raises-when", z3.Not(cond), node, name=f"{ename}@normal")
        if rep.canary is None:
            rep.canary = Obligation(f"{run.fkey}/canary", "canary", run.facts, z3.BoolVal(False))
            rep.canary._keep = (run,)
    else:
        pr = outcome[1]
        X = pr.cls
        ro = c.raises_only()
        clauses = c.raises()
        if ro is not None:
            allowed = [eng._exc_class(e) for e in ro] + [eng._exc_class(e) for (e, _, _) in clauses]
            if not any(X.is_subclass_of(A) for A in allowed):
                w = pr.where
                run.obligation("raises-only", z3.BoolVal(False), node, name=f"{X.name}@L{w[0] if w else '?'}",
                               note=f"{X.name} can escape ({w[1] if w else ''}); allowed: {sorted(set(ro))}")
        matched = False
        for (ename, mode, fn) in clauses:
            E = eng._exc_class(ename)
            if X.is_subclass_of(E):
                matched = True
                if mode == "iff":
                    cond = _eval_pre(eng, c, fn, params, pre_state)
                    w = pr.where
                    run.obligation("raises-iff", cond, node, name=f"{ename}@raise-L{w[0] if w else '?'}")
        if not matched and clauses and ro is None:
            pass


def _eval_pre(eng, c, fn, params, pre_state):
    run = eng.run
    saved = (run.overlay, run.overlay_terms, run.fresh, run.world_lists)
    run.overlay, run.overlay_terms = pre_state["overlay"], pre_state["overlay_terms"]
    run.world_lists = pre_state.get("world_lists", {})
    try:
        return eng.eval_clause(c, fn, params).truth()
    finally:
        run.overlay, run.overlay_terms, run.fresh, run.world_lists = saved


# ------------------------------------------------------------------------------------------
def _checked(s, timeout_ms):
    """solver.check() with a hard wall-clock stop: z3's own timeout is not honoured in every phase."""
    import threading
    ctx = z3.main_ctx()

    def stop():
        try:
            ctx.interrupt()
        except Exception:
            pass
    t = threading.Timer(timeout_ms / 1000.0 + 2.0, stop)
    t.daemon = True
    t.start()
    try:
        try:
            r = s.check()
        except z3.Z3Exception:
            r = z3.unknown
    finally:
        t.cancel()
    return r


def solve(o, timeout_ms=6000, dump_dir=None, want_model=True, eng=None, expect_fail=False):
    """Discharge one obligation.

    1. quantifier-free attempt: definitional axioms of the spec functions instantiated on the
       obligation's own terms (3 rounds).  unsat => discharged (only instances of axioms were
       used).  sat => candidate counter-model (kept for replay).
    2. otherwise the quantified encoding (definitional axioms with triggers).  unsat => discharged.
    3. otherwise 'failed'; if no model yet, recursive-function twins are asked for one.
    `unknown` / timeouts are never verdicts by themselves."""
    t0 = time.time()
    run = o._keep[0] if hasattr(o, "_keep") else None
    eng = eng or (run.eng if run is not None else None)
    extra = axioms.for_obligation(eng, run, o) if eng is not None else []
    nonspec = [f for f in extra if not _is_spec_axiom(f)]
    o.reason = ""
    o.model = None
    ground_sat = False
    # --- 1. ground
    ground = axioms.ground_unfold(eng, list(o.facts) + [o.goal], depth=3) if eng is not None else []
    s = z3.Solver()
    _to = min(timeout_ms, 1500)
    s.set("timeout", _to)
    for f in o.facts:
        s.add(f)
    for f in ground + nonspec:
        s.add(f)
    s.add(z3.Not(o.goal))
    r = _checked(s, _to)
    if r == z3.unsat:
        o.result, o.solver, o.time = "discharged", "z3-ground", time.time() - t0
        _dump(o, s, dump_dir)
        return o
    if r == z3.sat:
        o.reason = "ground: sat"
        ground_sat = True
        if want_model:
            o.model = s.model()
            o.model_kind = "ground"
    else:
        o.reason = f"ground: unknown ({s.reason_unknown()})"
    # --- 2. quantified
    if not (expect_fail and (o.model is not None or ground_sat)):
        s = z3.Solver()
        _to = min(timeout_ms, 2500) if (expect_fail or o.model is not None) else timeout_ms
        s.set("timeout", _to)
        for f in o.facts:
            s.add(f)
        for f in extra:
            s.add(f)
        s.add(z3.Not(o.goal))
        _dump(o, s, dump_dir)
        r = _checked(s, _to)
        if r == z3.unsat:
            o.result, o.solver, o.time = "discharged", "z3-quant", time.time() - t0
            o.model = None
            return o
        o.reason += f"; quantified: {r}" + (f" ({s.reason_unknown()})" if r == z3.unknown else "")
        if r == z3.sat and want_model and o.model is None:
            o.model = s.model()
            o.model_kind = "quant"
    if not ground_sat and not expect_fail:
        # the short ground attempt was inconclusive: give it the full budget once
        s = z3.Solver()
        _to = timeout_ms
        s.set("timeout", _to)
        for f in o.facts:
            s.add(f)
        for f in ground + nonspec:
            s.add(f)
        s.add(z3.Not(o.goal))
        r = _checked(s, _to)
        if r == z3.unsat:
            o.result, o.solver, o.time = "discharged", "z3-ground", time.time() - t0
            o.model = None
            return o
        o.reason += f"; ground(long): {r}"
        if r == z3.sat and want_model and o.model is None:
            o.model = s.model()
            o.model_kind = "ground"
    o.result = "failed"
    o.solver = "z3"
    if want_model and eng is not None and getattr(o, "model_kind", None) != "quant":
        try:
            r, m = axioms.refute(eng, o, nonspec, timeout_ms=min(timeout_ms, 5000))
            o.reason += f"; refutation: {r}"
            if m is not None:
                o.model = m
                o.model_kind = "rec"
        except Exception as ex:
            o.reason += f"; refutation error {type(ex).__name__}: {ex}"
    o.time = time.time() - t0
    return o


def _dump(o, s, dump_dir):
    if not dump_dir:
        return
    try:
        os.makedirs(dump_dir, exist_ok=True)
        fn = os.path.join(dump_dir, _safe(o.id) + ".smt2")
        with open(fn, "w") as fh:
            fh.write(s.to_smt2())
        o.smt2 = fn
    except Exception:
        pass


def _is_spec_axiom(f):
    if not z3.is_quantifier(f) or f.num_patterns() != 1:
        return False
    p = f.pattern(0)
    try:
        return p.arg(0).decl().name().startswith("spec_")
    except Exception:
        return False


def _safe(s):
    return "".join(ch if ch.isalnum() or ch in "-_.#@" else "_" for ch in s)[:180]



def verify_lemma(eng, c, prop):
    """A lemma over specification functions, proved by well-founded induction over the finite, acyclic object graph.

        @lemma(props=[..])
        class L:
            def requires(a, b): ...          # domain
            def claim(a, b): ...             # the statement
            induction = ("a", "b")           # hypothesis: the claim for every pair of STRICTLY SMALLER objects
            components = ("_statements", ..) # fields whose values are components (smaller than their owner)

    Verification condition: requires(a,b) and (forall x,y. rank(x) < rank(a) and rank(y) < rank(b) and requires(x,y) ==>
    claim(x,y)) ==> claim(a,b), where rank is an uninterpreted measure of which only "a component is smaller than the
    object that holds it" is assumed (fields listed in `components`, elements of lists / tuples, values of dicts) - the
    global assumption that IR object graphs are finite and acyclic, i.e. that such a measure exists."""
    rep = FunctionReport("lemma:" + c.name, c.name)
    t0 = time.time()
    path = eng.cs.files.get(c.module)
    rep.file = os.path.relpath(path, os.path.dirname(os.path.dirname(os.path.abspath(__file__)))) if path else None
    rep.lines = [c.node.lineno, c.node.end_lineno]
    import hashlib
    rep.ast_hash = hashlib.sha256(ast.dump(c.node).encode()).hexdigest()[:16]
    rep.file_sha256 = hashlib.sha256(open(path, "rb").read()).hexdigest() if path else None
    rep.self_cls = None
    try:
        run = Run(eng, [])
        run.deadline = t0 + FUNC_BUDGET_S
        eng.run = run
        run.fkey = f"{prop}/lemma:{c.name}"
        run.prop = prop
        run.verifying_key = rep.key
        run.own_contract = c
        claim = c.methods.get("claim")
        req = c.requires()
        if claim is None:
            raise Unsupported("lemma without claim")
        names = [a.arg for a in claim.args.args]
        params = {n: TV(z3.Const(f"p_{n}", S.Val)) for n in names}
        run.root_bindings = dict(params)
        run.mod_bound = params
        if req is not None:
            run.assume(eng.eval_clause(c, req, params).truth())
        if not run.quick_feasible(z3.BoolVal(True)):
            raise Unsupported("precondition unsatisfiable (vacuous lemma)")
        assume_lemmas(eng, run, c)
        ind = c.attrs.get("induction") or ()
        if isinstance(ind, str):
            ind = (ind,)
        if ind:
            rank = z3.Function("ih_rank", S.Val, z3.IntSort())
            smaller = {n: (TV(z3.Const(f"ih_{n}", S.Val)) if n in ind else params[n]) for n in names}
            conds = [rank(smaller[n].t) < rank(params[n].t) for n in ind]
            pre = eng.eval_clause(c, req, smaller).truth() if req is not None else z3.BoolVal(True)
            cl = eng.eval_clause(c, claim, smaller).truth()
            trig = c.methods.get("trigger")
            pats = None
            if trig is not None:
                tv = eng.eval_clause(c, trig, smaller)
                pats = [eng.to_tv(tv).truth() if eng.to_tv(tv).sort == "bool" else eng.to_tv(tv).val()]
            vs = [smaller[n].t for n in ind]
            body = z3.Implies(z3.And(conds + [pre]), cl)
            try:
                run.assume(z3.ForAll(vs, body, patterns=pats) if pats else z3.ForAll(vs, body))
            except z3.Z3Exception:
                run.assume(z3.ForAll(vs, body))
            # "a component is smaller than what holds it"
            o = z3.Const("ih_o", S.Val)
            k = z3.Int("ih_k")
            comps = c.attrs.get("components") or ()
            if isinstance(comps, str):
                comps = (comps,)
            for f in comps:
                ft = S.fld(f)(o)
                run.assume(z3.ForAll([o], z3.Implies(S.is_VObj(o), rank(ft) < rank(o)), patterns=[ft]))
            run.assume(z3.ForAll([o, k], rank(S.seq_nth(o, k)) < rank(o), patterns=[S.seq_nth(o, k)]))
            run.assume(z3.ForAll([o], rank(S.dict_vals(o)) < rank(o), patterns=[S.dict_vals(o)]))
            run.assumptions_used.add("lemma by induction: a measure exists under which every component (listed fields, list / tuple "
                                     "elements, dict values) is smaller than the object holding it - IR object graphs are finite and acyclic")
        goal = eng.eval_clause(c, claim, params).truth()
        run.obligation("lemma", goal, claim, name=c.name)
        for o_ in run.obligations:
            o_._keep = (run,)
            rep.obligations.append(o_)
        rep.canary = Obligation(f"{run.fkey}/canary", "canary", run.facts, z3.BoolVal(False))
        rep.canary._keep = (run,)
        rep.assumptions |= run.assumptions_used
        rep.runs = rep.paths = 1
    except Unsupported as ex:
        rep.status = "unsupported"
        rep.reason = str(ex)
        if os.environ.get("PYVC_DEBUG"):
            traceback.print_exc()
    except Exception as ex:
        rep.status = "unsupported"
        rep.reason = f"internal error {type(ex).__name__}: {str(ex)[:200]}"
        if os.environ.get("PYVC_DEBUG"):
            traceback.print_exc()
    for o_ in rep.obligations:
        o_.base_id = o_.id
        o_.id = f"{o_.id}@p0"
    rep.time = time.time() - t0
    return rep
