"""./check <PROP> [--tier quick|thorough] | ./check replay <file> | ./check list"""
import argparse
import concurrent.futures as cf
import hashlib
import json
import os
import subprocess
import sys
import time
import traceback

ROOT = os.path.dirname(os.path.dirname(os.path.abspath(__file__)))
VENV_PY = "/venv/bin/python"
OUT = os.path.join(ROOT, "out")

_ENG = None


def _limit_memory():
    try:
        import resource
        lim = int(os.environ.get("PYVC_MEM_GB", "10")) * (1 << 30)
        resource.setrlimit(resource.RLIMIT_AS, (lim, lim))
    except Exception:
        pass


def _engine():
    global _ENG
    if _ENG is None:
        _limit_memory()
        from .symexec import Engine
        _ENG = Engine()
    return _ENG


def load_findings():
    p = os.path.join(ROOT, "known_findings.json")
    if not os.path.exists(p):
        return []
    return json.load(open(p)).get("findings", [])


def _match_finding(findings, prop, base_id):
    out = []
    for f in findings:
        if f.get("status") != "open" or f.get("kind", "obligation") != "obligation":
            continue
        if f["property"] != prop:
            continue
        fo = f["obligation"]
        # stored without the property prefix and without @pN
        if base_id.endswith(fo) or base_id.split("/", 1)[-1] == fo:
            out.append(f)
    return out


def worker(task):
    """Verify one contract and solve its obligations. Returns a picklable summary."""
    prop, ckey, cname, self_cls_name, tier, findings = task[:6]
    scale = task[6] if len(task) > 6 else 1
    if scale > 1:
        from . import verify as _v
        _v.FUNC_BUDGET_S = _v.FUNC_BUDGET_S * scale
        # second chance: feasibility queries (class pruning at dispatch sites) get the longer budget too, so that a
        # solver that was merely slow under load does not leave an infeasible class "possible"
        _engine().feas_timeout_ms = 400 * scale
    import z3
    from .verify import verify_contract, solve
    from .concretise import concretise
    eng = _engine()
    t0 = time.time()
    c = None
    for cand in eng.cs.contracts.get(ckey, []):
        if cand.name == cname:
            c = cand
    self_cls = eng.ct.find_class(self_cls_name) if self_cls_name else None
    try:
        if ckey.startswith("lemma:"):
            from .verify import verify_lemma
            c = eng.cs.lemma_classes[cname]
            rep = verify_lemma(eng, c, prop)
        else:
            rep = verify_contract(eng, c, prop, self_cls=self_cls)
    except Exception:
        return {"key": ckey, "contract": cname, "status": "error", "reason": traceback.format_exc(), "obligations": []}
    timeout = (6000 if tier == "quick" else 30000) * scale
    dump = os.path.join(OUT, "smt", prop)
    obls = []
    for o in rep.obligations:
        fs = _match_finding(findings, prop, o.base_id)
        parts = []
        if fs and any(f.get("region") for f in fs):
            # split by the union of the listed regions: complement must still be proved
            run = o._keep[0]
            eng.run = run
            regs = []
            for f in fs:
                rfn = c.region(f["region"]) if f.get("region") else None
                if rfn is None:
                    regs = None
                    break
                regs.append((f, eng.eval_clause(c, rfn, run.root_bindings).truth()))
            if regs is None:
                parts = [("whole", o, fs)]
            else:
                from .symexec import Obligation
                union = z3.Or([r for _, r in regs])
                o_out = Obligation(o.id + "~outside-regions", o.kind, o.facts + [z3.Not(union)], o.goal, o.line, o.note, o.decisions)
                o_out._keep = o._keep
                o_out.base_id = o.base_id
                parts.append(("outside", o_out, None))
                for f, r in regs:
                    o_in = Obligation(o.id + f"~in-{f['region']}", o.kind, o.facts + [r], o.goal, o.line, o.note, o.decisions)
                    o_in._keep = o._keep
                    o_in.base_id = o.base_id
                    parts.append(("inside", o_in, [f]))
        elif fs:
            parts = [("whole", o, fs)]
        else:
            parts = [("plain", o, None)]
        for role, ob, fl in parts:
            # after three failed obligations in one function the rest get the short budget
            expect_fail = role in ("inside", "whole") or sum(1 for d0 in obls if d0["result"] == "failed" and d0["role"] in ("plain", "outside")) >= 3
            many = sum(1 for d0 in obls if d0["result"] == "failed" and d0["role"] in ("plain", "outside")) >= 3
            solve(ob, 2000 if many else timeout, dump_dir=dump, eng=eng, expect_fail=expect_fail, want_model=not many)
            d = {"id": ob.id, "base_id": ob.base_id, "kind": ob.kind, "result": ob.result, "solver": ob.solver, "time": round(ob.time, 3),
                 "reason": getattr(ob, "reason", ""), "line": ob.line, "note": ob.note, "role": role,
                 "smt2": os.path.relpath(getattr(ob, "smt2", ""), ROOT) if getattr(ob, "smt2", None) else None,
                 "findings": [f["id"] for f in fl] if fl else None}
            if ob.result == "failed" and ob.model is not None:
                try:
                    d["model"] = concretise(eng, ob.model, ob._keep[0], getattr(ob, "model_kind", "?"))
                except Exception as ex:
                    d["model_error"] = f"{type(ex).__name__}: {ex}"
            obls.append(d)
    canary = None
    if rep.canary is not None:
        solve(rep.canary, 2000, eng=eng, want_model=False, expect_fail=True)
        canary = rep.canary.result
    return {"key": rep.key, "contract": cname, "status": rep.status, "reason": rep.reason, "obligations": obls, "canary": canary,
            "runs": rep.runs, "paths": rep.paths, "vacuous_paths": rep.vacuous_paths, "unchecked_implicit": rep.unchecked_implicit,
            "assumptions": sorted(rep.assumptions), "file": rep.file, "lines": rep.lines, "ast_hash": rep.ast_hash,
            "file_sha256": rep.file_sha256, "self_cls": rep.self_cls, "time": round(time.time() - t0, 2)}


def tasks_for(eng, prop):
    tasks = []
    for key, lst in eng.cs.contracts.items():
        for c in lst:
            if prop in c.props:
                classes = c.opts.get("also_for") or []
                tasks.append((key, c.name, None))
                for k in classes:
                    tasks.append((key, c.name, k))
    for name, c in eng.cs.lemma_classes.items():
        if prop in c.props:
            tasks.append(("lemma:" + name, name, None))
    return tasks


def run_native(args, stdin_obj=None, timeout=600):
    env = dict(os.environ)
    env["PYTHONPATH"] = ROOT + os.pathsep + os.environ.get("PYVC_REPO_SRC", "/repo/src")
    p = subprocess.run([VENV_PY] + args, input=json.dumps(stdin_obj) if stdin_obj is not None else None,
                       capture_output=True, text=True, timeout=timeout, env=env, cwd=ROOT)
    return p


def check_property(prop, tier, seed, jobs=16):
    t0 = time.time()
    eng = _engine()
    findings = load_findings()
    tasks = tasks_for(eng, prop)
    results = []
    lines = []
    if tasks:
        with cf.ProcessPoolExecutor(max_workers=min(jobs, max(1, len(tasks)))) as ex:
            futs = [ex.submit(worker, (prop, k, n, sc, tier, findings)) for (k, n, sc) in tasks]
            for f in futs:
                try:
                    results.append(f.result(timeout=3000))
                except Exception:
                    results.append({"key": "?", "status": "error", "reason": traceback.format_exc(), "obligations": []})
    # ---- second chance, without contention: a function whose symbolic execution ran out of budget, or an obligation
    # that ended in solver timeouts only (no counter-model), is re-run with a 5x budget, two at a time.  Timeouts on
    # a busy machine must not become verdicts.
    def _inconclusive(r):
        if r.get("status") == "unsupported":
            # includes "<construct> in merge mode" reports that only arise when a feasibility query timed out under load
            return True
        for o in r.get("obligations", []):
            if o["result"] == "failed" and o["role"] in ("plain", "outside") and "sat" not in str(o.get("reason")).replace("unsat", ""):
                return True
        return False
    redo = [i for i, r in enumerate(results) if r.get("status") != "error" and _inconclusive(r)]
    if redo and not os.environ.get("PYVC_NO_RETRY"):
        with cf.ProcessPoolExecutor(max_workers=2) as ex:
            futs = {i: ex.submit(worker, (prop, tasks[i][0], tasks[i][1], tasks[i][2], tier, findings, 3)) for i in redo}
            for i, f in futs.items():
                try:
                    r2 = f.result(timeout=6000)
                    r2["retried"] = True
                    results[i] = r2
                except Exception:
                    pass
    # ---- data lemmas / property-level lemmas (in process)
    from . import datalemmas
    dl = datalemmas.run(eng, prop, tier)
    if prop == "C03":
        from . import kernel
        kl = kernel.run(prop, tier)
        dl = {"obligations": dl["obligations"] + kl["obligations"], "assumptions": dl.get("assumptions", []) + kl["assumptions"],
              "summary": {"data": dl.get("summary"), "kernel": kl["summary"]}}
    # ---- executable twins of the lemma library (assumptions are at least exercised on every run)
    lemma_twins = None
    if prop in ("C15", "C03"):
        from . import strings
        n_vals, bad = strings.check_twins(seed)
        lemma_twins = {"values": n_vals, "disagreements": len(bad)}
        if bad:
            print(f"CHECKER-ERROR lemma library disagrees with CPython: {bad[:3]}", file=sys.stderr)
            return 3
    # ---- triage obligations
    n_obl = n_dis = 0
    failed = []
    known_hit = []
    stale = []
    fallbacks = []
    errors = []
    canaries = {"expected_unproved": 0, "unproved": 0}
    solver_time = 0.0
    backends = {}
    samples = []
    funcs = []
    for r in results:
        if r["status"] == "error":
            errors.append(r)
            continue
        if r["status"] == "unsupported":
            fallbacks.append({"function": r["key"], "contract": r.get("contract"), "reason": r["reason"]})
        funcs.append({"qualname": r["key"], "contract": r.get("contract"), "self_class": r.get("self_cls"), "file": r.get("file"),
                      "file_sha256": r.get("file_sha256"), "lines": r.get("lines"), "ast_hash": r.get("ast_hash"), "status": r["status"],
                      "paths": r.get("paths"), "obligations": len(r["obligations"])})
        if r.get("canary") is not None:
            canaries["expected_unproved"] += 1
            if r["canary"] != "discharged":
                canaries["unproved"] += 1
        for o in r["obligations"]:
            solver_time += o["time"]
            if o["role"] in ("plain", "outside"):
                n_obl += 1
                if o["result"] == "discharged":
                    n_dis += 1
                    backends[o["solver"]] = backends.get(o["solver"], 0) + 1
                    if len(samples) < 6:
                        samples.append({"id": o["id"], "solver": o["solver"], "result": "unsat", "time_s": o["time"], "smt2": o["smt2"]})
                else:
                    failed.append((r, o))
            else:
                if o["result"] == "failed":
                    known_hit.append((r, o))
                else:
                    stale.append((r, o))
    for d in dl["obligations"]:
        n_obl += 1
        solver_time += d.get("time", 0)
        if d["result"] == "discharged":
            n_dis += 1
            backends[d["solver"]] = backends.get(d["solver"], 0) + 1
            if len(samples) < 8:
                samples.append({"id": d["id"], "solver": d["solver"], "result": "unsat", "time_s": d.get("time", 0)})
        elif d.get("finding"):
            known_hit.append((None, d))
        elif d["result"] == "undecided":
            # the lemma generator could not read the code (outside its subset): reported, never a verdict
            n_obl -= 1
            fallbacks.append({"function": d["id"], "contract": None, "reason": d.get("reason")})
        else:
            failed.append((None, d))
    # ---- replay counter-models of failed obligations on the real code
    violations = []
    to_replay = []
    for r, o in failed + known_hit:
        if r is not None and o.get("model") is not None:
            to_replay.append((r, o))
    replays = {}
    if to_replay:
        items = [{"key": r["key"], "contract": r["contract"], "desc": o["model"]} for r, o in to_replay]
        try:
            p = run_native(["-m", "pyvc.native", "replay-models"], items, timeout=120)
            outs = json.loads(p.stdout) if p.returncode == 0 else [{"verdict": "error", "detail": p.stderr[-500:]}] * len(items)
        except Exception as ex:
            outs = [{"verdict": "error", "detail": str(ex)}] * len(items)
        for (r, o), res in zip(to_replay, outs):
            replays[o["id"]] = res
    os.makedirs(os.path.join(ROOT, "replays", prop), exist_ok=True)

    def write_replay(r, o, extra=None):
        rid = hashlib.sha1(o["id"].encode()).hexdigest()[:10]
        safe = "".join(ch if ch.isalnum() or ch in "-_.#" else "_" for ch in o["id"].split("/", 1)[-1])[:110]
        path = os.path.join("replays", prop, f"{safe}.{rid}.json")
        res = replays.get(o["id"]) or o.get("native")
        doc = {"property": prop, "obligation": o["id"], "function": r["key"] if r else None, "contract": r.get("contract") if r else None,
               "file": r.get("file") if r else None, "lines": r.get("lines") if r else None, "line": o.get("line"), "note": o.get("note"),
               "solver": {"result": o["result"], "reason": o.get("reason"), "smt2": o.get("smt2")},
               "kind": "model" if (o.get("model") or o.get("witness")) else "obligation-only", "input_model": o.get("model") or o.get("witness"), "native_replay": res}
        if extra:
            doc.update(extra)
        with open(os.path.join(ROOT, path), "w") as fh:
            json.dump(doc, fh, indent=1, default=str)
        return path, res

    for r, o in failed:
        path, res = write_replay(r, o)
        confirmed = res is not None and res.get("verdict") == "violation"
        tail = "" if confirmed else " no-failing-input-found"
        lines.append(f"VIOLATION property={prop} replay={path}{tail}")
        violations.append({"obligation": o["id"], "replay": path, "confirmed_on_real_code": confirmed, "reason": o.get("reason"), "note": o.get("note")})
    seen_kf = set()
    kf_out = []
    for r, o in known_hit:
        path, res = write_replay(r, o)
        for fid in (o.get("findings") or [o.get("finding")]):
            if fid in seen_kf:
                continue
            seen_kf.add(fid)
            f = next((x for x in findings if x["id"] == fid), {"what_fails": ""})
            lines.append(f"KNOWN-FINDING: property={prop} {fid}: {f.get('what_fails', '')}")
            kf_out.append({"finding": fid, "obligation": o["id"], "replay": path,
                           "confirmed_on_real_code": bool(res and res.get("verdict") == "violation")})
    for r, o in stale:
        lines.append(f"STALE-FINDING: property={prop} obligation {o['id']} is listed as a known finding but is now discharged")
    # ---- bounded stand-in
    bounded = None
    bmod = os.path.join(ROOT, "bounded", f"{prop.lower()}.py")
    if os.path.exists(bmod):
        try:
            p = run_native([bmod, "--tier", tier, "--seed", str(seed)], timeout=3000)
            bounded = json.loads(p.stdout.strip().splitlines()[-1]) if p.stdout.strip() else {"error": p.stderr[-1500:]}
            if p.returncode not in (0, 1) or "error" in bounded:
                errors.append({"key": f"bounded/{prop}", "reason": (bounded.get("error") if isinstance(bounded, dict) else "") or p.stderr[-1500:]})
        except Exception as ex:
            errors.append({"key": f"bounded/{prop}", "reason": f"{type(ex).__name__}: {ex}"})
        if bounded and "violations" in bounded:
            for v in bounded["violations"]:
                fid = v.get("finding")
                if fid:
                    if fid not in seen_kf:
                        seen_kf.add(fid)
                        f = next((x for x in findings if x["id"] == fid), {"what_fails": ""})
                        lines.append(f"KNOWN-FINDING: property={prop} {fid}: {f.get('what_fails', '')}")
                        kf_out.append({"finding": fid, "bounded_case": v.get("case"), "replay": v.get("replay")})
                else:
                    lines.append(f"VIOLATION property={prop} replay={v['replay']}")
                    violations.append({"bounded": True, "replay": v["replay"], "what": v.get("what"), "confirmed_on_real_code": True})
    for fb in fallbacks:
        lines.append(f"UNVERIFIED-FALLBACK {fb['function']} {fb['reason']}")
    wall = time.time() - t0
    # ---- evidence
    level = manifest_level(prop)
    assumptions = list(GLOBAL_ASSUMPTIONS)
    for r in results:
        for a in r.get("assumptions", []) or []:
            if a not in assumptions:
                assumptions.append(a)
    assumptions += dl.get("assumptions", [])
    unchecked = sum(r.get("unchecked_implicit", 0) for r in results if r["status"] != "error")
    cov = {
        "obligations": n_obl, "discharged": n_dis,
        "checker_cmd": f"./check {prop} --tier {tier}",
        "trusted_base": TRUSTED_BASE,
        "samples": samples or [{"note": "no obligation discharged in this run"}],
        "functions_under_contract": funcs,
        "backends": backends, "solver_time_s": round(solver_time, 2),
        "canaries": canaries,
        "covers": sum((r.get("paths") or 0) - (r.get("vacuous_paths") or 0) for r in results if r["status"] != "error"),
        "vacuous_paths": sum(r.get("vacuous_paths") or 0 for r in results if r["status"] != "error"),
        "implicit_exception_sites_not_under_contract": unchecked,
        "fallbacks": fallbacks,
        "known_findings_hit": kf_out,
        "violations": violations,
        "data_lemmas": dl.get("summary"),
        "lemma_library_twins": lemma_twins,
        "explanation": explanation_for(prop, n_obl, n_dis, bounded),
    }
    if bounded is not None:
        b = dict(bounded)
        b.pop("violations", None)
        b["labelled"] = "bounded stand-in: NOT counted in obligations/discharged"
        cov["bounded"] = b
        cov["evaluations"] = int(bounded.get("evaluations", 0))
        cov["distinct_nontrivial"] = int(bounded.get("distinct_nontrivial", 0))
        cov["rule"] = bounded.get("rule", "")
    ev = {"property_id": prop, "tier": tier, "seed": seed, "level": level, "coverage": cov, "assumptions": assumptions,
          "wall_s": round(wall, 2), "violations": len(violations)}
    if not os.environ.get("PYVC_NO_EVIDENCE"):
        os.makedirs(os.path.join(ROOT, "evidence"), exist_ok=True)
        with open(os.path.join(ROOT, "evidence", f"{prop}.json"), "w") as fh:
            json.dump(ev, fh, indent=1, default=str)
    if os.environ.get("PYVC_VERBOSE"):
        for r in results:
            print(f"  .. {r.get('key')} [{r.get('contract')}] status={r.get('status')} obligations={len(r.get('obligations', []))} "
                  f"failed={sum(1 for o in r.get('obligations', []) if o['result'] == 'failed')} time={r.get('time')}s reason={str(r.get('reason'))[:100]}")
    for ln in lines:
        print(ln)
    print(f"[{prop}] functions={len(funcs)} obligations={n_obl} discharged={n_dis} failed={len(failed)} known={len(kf_out)} "
          f"fallbacks={len(fallbacks)} canaries={canaries['unproved']}/{canaries['expected_unproved']} wall={wall:.1f}s")
    if errors:
        for e in errors:
            print(f"CHECKER-ERROR {e.get('key')}: {str(e.get('reason'))[-1200:]}", file=sys.stderr)
        return 3
    if canaries["unproved"] != canaries["expected_unproved"]:
        print("CHECKER-ERROR a canary (postcondition False) was discharged: the pipeline proves everything", file=sys.stderr)
        return 3
    if n_obl == 0 and not bounded:
        print("CHECKER-ERROR zero obligations generated", file=sys.stderr)
        return 3
    if violations:
        return 1
    if fallbacks:
        # a function under contract (or the kernel extractor) could not be read by the verifier on this tree: its
        # obligations were not generated.  The deductive part gives no verdict for it - neither held nor violated -
        # and says so; the bounded stand-in has still exercised it.  Not a violation (an edit that merely leaves the
        # verifier's Python subset must not raise an alarm), hence exit 0 with the gap stated.
        for fb in fallbacks:
            print(f"UNDECIDED property={prop} function={fb['function']} (no proof on this tree: {str(fb['reason'])[:160]}); bounded stand-in found nothing")
    return 0


TRUSTED_BASE = [
    "pyvc (this repository's AST->SMT symbolic executor, class table, builtin models)",
    "z3 5.1.0 (python wheel in /opt/veriftools/pyvenv)",
    "CPython semantics as modelled by pyvc (single-threaded; no __getattr__/descriptor/metaclass magic on enrolled classes)",
]
GLOBAL_ASSUMPTIONS = [
    "IR object graphs are finite and acyclic (structural recursion of spec functions is well founded)",
    "the class table of /repo/src/jaqalpaq is closed: no user-defined subclasses of the enrolled classes",
    "int is mathematical (exact for Python); float is modelled as a real (no inf/nan, no rounding)",
    "products of two non-literal integers and floor divisions by non-literals are uninterpreted in proof mode",
    "exceptional exits of functions whose contract has no raises clause are not under contract",
]


def manifest_level(prop):
    try:
        m = json.load(open(os.path.join(ROOT, "MANIFEST.json")))
        for c in m["checks"]:
            if c["property_id"] == prop:
                return c["level_claimed"]["category"]
    except Exception:
        pass
    return "other"


def explanation_for(prop, n_obl, n_dis, bounded):
    s = (f"Contract-based deductive verification of the real functions anchored by {prop}: {n_dis} of {n_obl} generated "
         f"verification conditions discharged by z3 (VCs are generated from /repo's current ASTs on every run). ")
    if bounded:
        s += ("A bounded small-scope stand-in (labelled bounded, never counted as proved) additionally exercised the end-to-end "
              f"statement on {bounded.get('evaluations', 0)} cases.")
    return s


def main(argv=None):
    ap = argparse.ArgumentParser()
    ap.add_argument("what")
    ap.add_argument("arg", nargs="?")
    ap.add_argument("--tier", default=os.environ.get("VERIF_TIER", "quick"))
    ap.add_argument("--jobs", type=int, default=16)
    a = ap.parse_args(argv)
    seed = int(os.environ.get("VERIF_SEED", "0") or 0)
    if os.environ.get("VERIF_TIER"):
        a.tier = os.environ["VERIF_TIER"]
    if a.what == "replay":
        p = run_native(["-m", "pyvc.native", "replay-file", os.path.join(ROOT, a.arg) if not os.path.isabs(a.arg) else a.arg])
        sys.stdout.write(p.stdout)
        sys.stderr.write(p.stderr)
        return p.returncode
    if a.what == "list":
        eng = _engine()
        for k, lst in sorted(eng.cs.contracts.items()):
            for c in lst:
                print(k, c.name, c.props)
        return 0
    try:
        return check_property(a.what, a.tier, seed, a.jobs)
    except Exception:
        traceback.print_exc()
        return 3


if __name__ == "__main__":
    sys.exit(main())
