"""Class/function table built from the real /repo sources on every run.

Nothing is copied from /repo: every run re-parses the files with ``ast`` and the
symbolic executor works on those trees.  What extraction drops: comments,
docstrings, type annotations, decorators other than property/staticmethod/
classmethod/contextmanager/sly's ``_``.
"""
import ast
import hashlib
import os

REPO_SRC = os.environ.get("PYVC_REPO_SRC", "/repo/src")
PKG = "jaqalpaq"


class FuncInfo:
    def __init__(self, module, qualname, node, cls=None, kind="function"):
        self.module = module
        self.qualname = qualname      # e.g. Register.resolve_qubit
        self.node = node
        self.cls = cls                # ClassInfo or None
        self.kind = kind              # function | method | property | staticmethod | classmethod
        self.is_generator = any(
            isinstance(n, (ast.Yield, ast.YieldFrom)) for n in _walk_own(node)
        )

    @property
    def key(self):
        return f"{self.module}:{self.qualname}"

    @property
    def name(self):
        return self.node.name

    def lines(self):
        return [self.node.lineno, self.node.end_lineno]

    def ast_hash(self):
        return hashlib.sha256(ast.dump(self.node).encode()).hexdigest()[:16]

    def __repr__(self):
        return f"<Func {self.key}>"


def _walk_own(fn):
    """Walk a function body without descending into nested defs/lambdas/classes."""
    stack = list(fn.body)
    while stack:
        n = stack.pop()
        yield n
        for c in ast.iter_child_nodes(n):
            if isinstance(c, (ast.FunctionDef, ast.AsyncFunctionDef, ast.Lambda, ast.ClassDef)):
                continue
            stack.append(c)


class ClassInfo:
    def __init__(self, module, name, node):
        self.module = module
        self.name = name
        self.node = node
        self.base_exprs = node.bases
        self.bases = []        # resolved ClassInfo or ExternalClass
        self.methods = {}      # name -> FuncInfo (own)
        self.class_attrs = {}  # name -> ast expr (own, simple assignments)
        self.mro = None
        self.subclasses = set()

    @property
    def key(self):
        return f"{self.module}:{self.name}"

    def lookup(self, name):
        """Find attribute along the MRO: returns (kind, owner, thing) or None."""
        for c in self.mro:
            if isinstance(c, ClassInfo):
                if name in c.methods:
                    return ("method", c, c.methods[name])
                if name in c.class_attrs:
                    return ("attr", c, c.class_attrs[name])
            else:
                if name in c.attrs:
                    return ("external", c, name)
        return None

    def is_subclass_of(self, other):
        return other in self.mro

    def __repr__(self):
        return f"<Class {self.key}>"


class ExternalClass:
    """A class the repo does not define (builtins, sly, enum, numpy...)."""

    def __init__(self, name, bases=(), attrs=()):
        self.name = name
        self.key = f"builtins:{name}"
        self.bases = list(bases)
        self.attrs = set(attrs)
        self.mro = [self]
        for b in bases:
            for c in b.mro:
                if c not in self.mro:
                    self.mro.append(c)
        self.subclasses = set()
        self.methods = {}
        self.class_attrs = {}
        self.data = set()      # attributes that are plain data fields (not methods)

    def lookup(self, name):
        for c in self.mro:
            if name in c.attrs:
                return ("external", c, name)
        return None

    def is_subclass_of(self, other):
        return other in self.mro

    def __repr__(self):
        return f"<Ext {self.name}>"


class ModuleInfo:
    def __init__(self, name, path, tree, source):
        self.name = name
        self.path = path
        self.tree = tree
        self.source = source
        self.sha256 = hashlib.sha256(source.encode()).hexdigest()
        self.functions = {}   # name -> FuncInfo
        self.classes = {}     # name -> ClassInfo
        self.imports = {}     # local name -> ("module", modname) | ("name", modname, attr)
        self.globals = {}     # name -> ast expr for simple module-level constants


def _c3(cls, get_bases):
    def merge(seqs):
        res = []
        seqs = [list(s) for s in seqs if s]
        while seqs:
            for s in seqs:
                cand = s[0]
                if not any(cand in t[1:] for t in seqs):
                    break
            else:
                raise TypeError("inconsistent MRO")
            res.append(cand)
            seqs = [[x for x in s if x is not cand] for s in seqs]
            seqs = [s for s in seqs if s]
        return res

    bases = get_bases(cls)
    return [cls] + merge([b.mro if b.mro is not None else _c3(b, get_bases) for b in bases] + [bases])


class ClassTable:
    def __init__(self, src_root=None):
        self.src_root = src_root or REPO_SRC
        self.modules = {}
        self.ext = {}
        self._init_externals()
        self._load()
        self._resolve()

    # ------------------------------------------------------------------
    def _init_externals(self):
        E = ExternalClass
        obj = E("object", attrs=["__init__", "__eq__", "__ne__", "__hash__", "__repr__", "__str__", "__class__", "__dict__"])
        self.ext["object"] = obj

        def mk(name, bases=(obj,), attrs=()):
            c = E(name, bases, attrs)
            self.ext[name] = c
            return c

        mk("NoneType")
        i = mk("int", attrs=["__int__", "__float__", "real", "imag", "__index__"])
        mk("bool", (i,))
        mk("float", attrs=["__int__", "__float__", "real", "imag", "is_integer"])
        mk("complex", attrs=["real", "imag"])
        mk("str", attrs=["count", "format", "zfill", "rfind", "split", "join", "startswith", "endswith", "strip", "__getitem__", "__len__", "__iter__", "__contains__"])
        mk("list", attrs=["append", "extend", "pop", "copy", "insert", "remove", "clear", "index", "__getitem__", "__setitem__", "__len__", "__iter__", "__contains__", "sort", "reverse"])
        mk("tuple", attrs=["__getitem__", "__len__", "__iter__", "__contains__", "index", "count"])
        d = mk("dict", attrs=["get", "pop", "items", "keys", "values", "update", "copy", "setdefault", "clear", "__getitem__", "__setitem__", "__len__", "__iter__", "__contains__", "__delitem__"])
        mk("OrderedDict", (d,))
        mk("defaultdict", (d,))
        mk("set", attrs=["add", "discard", "update", "__len__", "__iter__", "__contains__", "copy", "__or__", "__and__", "__ior__"])
        mk("frozenset", attrs=["__len__", "__iter__", "__contains__"])
        mk("slice", attrs=["start", "stop", "step"])
        mk("range", attrs=["__len__", "__iter__", "__getitem__"])
        mk("deque", attrs=["append", "appendleft", "popleft", "pop", "__len__", "__iter__", "__getitem__"])
        mk("function", attrs=["__call__"])
        mk("builtin_all")   # the builtin ``all`` used as a sentinel value
        mk("type")
        mk("ndarray", attrs=["shape", "sum", "max", "__getitem__", "__setitem__", "__len__", "__iter__"])
        be = mk("BaseException", attrs=["args"])
        ex = mk("Exception", (be,))
        for n in ["TypeError", "ValueError", "AttributeError", "ZeroDivisionError",
                  "AssertionError", "StopIteration", "RuntimeError", "OverflowError", "ImportError", "NameError", "RecursionError"]:
            mk(n, (ex,))
        le = mk("LookupError", (ex,))
        mk("KeyError", (le,))
        mk("IndexError", (le,))
        mk("NotImplementedError", (self.ext["RuntimeError"],))
        mk("ModuleNotFoundError", (self.ext["ImportError"],))
        mk("LexError", (ex,), attrs=["text", "error_index"])      # sly.lex.LexError
        lx = mk("Lexer", attrs=["tokenize", "lineno", "index", "text"])   # sly.Lexer
        lx.data = {"lineno", "index", "text"}
        tk = mk("Token", attrs=["type", "value", "lineno", "index", "end"])          # sly.lex.Token
        tk.data = {"type", "value", "lineno", "index", "end"}
        mk("Parser", attrs=["parse", "errok", "restart"])            # sly.Parser
        mk("Enum", attrs=["name", "value"])
        mk("EnumMeta", (self.ext["type"],))
        mk("Path")

    # ------------------------------------------------------------------
    def _load(self):
        root = os.path.join(self.src_root, PKG)
        for dirpath, _dirs, files in os.walk(root):
            for fn in sorted(files):
                if not fn.endswith(".py"):
                    continue
                path = os.path.join(dirpath, fn)
                rel = os.path.relpath(path, self.src_root)[:-3]
                parts = rel.split(os.sep)
                if parts[-1] == "__init__":
                    parts = parts[:-1]
                modname = ".".join(parts)
                with open(path) as fh:
                    src = fh.read()
                try:
                    tree = ast.parse(src, filename=path)
                except SyntaxError:
                    continue
                mi = ModuleInfo(modname, path, tree, src)
                mi.is_pkg = fn == "__init__.py"
                self.modules[modname] = mi
                self._scan_module(mi)
                self._extract_fragments(mi)

    def _extract_fragments(self, mi):
        """Mechanical extraction of code fragments that sit inside functions pyvc cannot take as a whole.
        emulator/unitary.py, _make_subcircuit: the ARGUMENT WIRING of one gate - the statements `argv = []`,
        `qind = []` and the `for param, val in zip(...)` loop, cut out by AST position and wrapped, unchanged, as

            def _extracted_wiring(gatedef, gate):  argv = []; qind = []; <the loop>; return (argv, qind)

        Dropped: everything else of the enclosing loop body (the gate-definition lookup, the `continue` for gates
        without unitary, the multiplication).  Nothing inside the loop is changed.  The synthetic function lives
        only in the class table (never written to disk, never executed by CPython)."""
        if not mi.name.endswith("emulator.unitary"):
            return
        fn = None
        for n in ast.walk(mi.tree):
            if isinstance(n, ast.FunctionDef) and n.name == "_make_subcircuit":
                fn = n
        if fn is None:
            return
        loops = [n for n in ast.walk(fn) if isinstance(n, ast.For) and isinstance(n.iter, ast.Call)
                 and isinstance(n.iter.func, ast.Name) and n.iter.func.id == "zip"]
        if len(loops) != 1:
            return
        loop = loops[0]

        def init_of(name):
            for n in ast.walk(fn):
                if (isinstance(n, ast.Assign) and len(n.targets) == 1 and isinstance(n.targets[0], ast.Name) and n.targets[0].id == name
                        and isinstance(n.value, ast.List) and not n.value.elts):
                    return n
            return None
        a0, q0 = init_of("argv"), init_of("qind")
        if a0 is None or q0 is None:
            return
        ret = ast.Return(value=ast.Tuple(elts=[ast.Name(id="argv", ctx=ast.Load()), ast.Name(id="qind", ctx=ast.Load())], ctx=ast.Load()))
        args = ast.arguments(posonlyargs=[], args=[ast.arg(arg="gatedef"), ast.arg(arg="gate")], vararg=None, kwonlyargs=[], kw_defaults=[], kwarg=None, defaults=[])
        f = ast.FunctionDef(name="_extracted_wiring", args=args, body=[a0, q0, loop, ret], decorator_list=[], returns=None, type_comment=None)
        f.lineno = loop.lineno
        f.end_lineno = getattr(loop, "end_lineno", loop.lineno)
        f.col_offset = 0
        ast.fix_missing_locations(f)
        ret.lineno = f.end_lineno
        mi.functions["_extracted_wiring"] = FuncInfo(mi.name, "_extracted_wiring", f)

    def _scan_module(self, mi):
        for node in mi.tree.body:
            if isinstance(node, ast.FunctionDef):
                mi.functions[node.name] = FuncInfo(mi.name, node.name, node)
            elif isinstance(node, ast.ClassDef):
                ci = ClassInfo(mi.name, node.name, node)
                mi.classes[node.name] = ci
                for item in node.body:
                    if isinstance(item, ast.FunctionDef):
                        kind = "method"
                        for dec in item.decorator_list:
                            dn = dec.id if isinstance(dec, ast.Name) else (dec.attr if isinstance(dec, ast.Attribute) else None)
                            if dn == "property":
                                kind = "property"
                            elif dn == "staticmethod":
                                kind = "staticmethod"
                            elif dn == "classmethod":
                                kind = "classmethod"
                            elif dn == "contextmanager":
                                kind = "contextmanager"
                        fi = FuncInfo(mi.name, f"{node.name}.{item.name}", item, ci, kind)
                        # sly redefines the same action name several times; keep all
                        if item.name in ci.methods:
                            prev = ci.methods[item.name]
                            lst = getattr(prev, "overloads", [prev])
                            fi.overloads = lst + [fi]
                            for k, f in enumerate(fi.overloads):
                                f.ordinal = k
                        ci.methods[item.name] = fi
                    elif isinstance(item, ast.Assign) and len(item.targets) == 1 and isinstance(item.targets[0], ast.Name):
                        ci.class_attrs[item.targets[0].id] = item.value
            elif isinstance(node, ast.Import):
                for a in node.names:
                    mi.imports[(a.asname or a.name).split(".")[0]] = ("module", a.name if a.asname else a.name.split(".")[0])
            elif isinstance(node, ast.ImportFrom):
                base = node.module or ""
                if node.level:
                    pkg = mi.name.split(".")
                    if not getattr(mi, "is_pkg", False):
                        pkg = pkg[:-1]
                    if node.level > 1:
                        pkg = pkg[: len(pkg) - (node.level - 1)]
                    base = ".".join(pkg + ([node.module] if node.module else []))
                for a in node.names:
                    mi.imports[a.asname or a.name] = ("name", base, a.name)
            elif isinstance(node, ast.Assign) and len(node.targets) == 1 and isinstance(node.targets[0], ast.Name):
                mi.globals[node.targets[0].id] = node.value

    # ------------------------------------------------------------------
    def resolve_name(self, modname, name, _depth=0):
        """Resolve a global name in a module to FuncInfo/ClassInfo/ExternalClass/("module", m)/("global", mi, expr)/None."""
        if _depth > 8:
            return None
        mi = self.modules.get(modname)
        if mi is None:
            return self._external_name(modname, name)
        if name in mi.classes:
            return mi.classes[name]
        if name in mi.functions:
            return mi.functions[name]
        if name in mi.globals:
            return ("global", mi, mi.globals[name])
        if name in mi.imports:
            imp = mi.imports[name]
            if imp[0] == "module":
                return ("module", imp[1])
            _, base, attr = imp
            if attr == "*":
                return None
            if base in self.modules:
                r = self.resolve_name(base, attr, _depth + 1)
                if r is not None:
                    return r
                # star re-export
                for k, v in self.modules[base].imports.items():
                    pass
                sub = f"{base}.{attr}"
                if sub in self.modules:
                    return ("module", sub)
                return self._star_lookup(base, attr, _depth)
            sub = f"{base}.{attr}"
            if sub in self.modules:
                return ("module", sub)
            return self._external_name(base, attr)
        r = self._star_lookup(modname, name, _depth)
        return r

    def _star_lookup(self, modname, name, _depth):
        mi = self.modules.get(modname)
        if mi is None:
            return None
        for node in mi.tree.body:
            if isinstance(node, ast.ImportFrom) and any(a.name == "*" for a in node.names):
                base = node.module or ""
                if node.level:
                    pkg = mi.name.split(".")
                    if not getattr(mi, "is_pkg", False):
                        pkg = pkg[:-1]
                    base = ".".join(pkg + ([node.module] if node.module else []))
                if base in self.modules and base != modname:
                    r = self.resolve_name(base, name, _depth + 1)
                    if r is not None:
                        return r
        return None

    def _external_name(self, modname, name):
        table = {
            ("collections", "OrderedDict"): "OrderedDict",
            ("collections", "defaultdict"): "defaultdict",
            ("collections", "deque"): "deque",
            ("sly", "Lexer"): "Lexer",
            ("sly", "Parser"): "Parser",
            ("enum", "Enum"): "Enum",
            ("enum", "EnumMeta"): "EnumMeta",
            ("pathlib", "Path"): "Path",
        }
        if (modname, name) in table:
            return self.ext[table[(modname, name)]]
        return ("external", modname, name)

    def _resolve(self):
        for mi in self.modules.values():
            for ci in mi.classes.values():
                bases = []
                for b in ci.base_exprs:
                    r = None
                    if isinstance(b, ast.Name):
                        r = self.resolve_name(mi.name, b.id)
                        if r is None and b.id in self.ext:
                            r = self.ext[b.id]
                    elif isinstance(b, ast.Attribute) and isinstance(b.value, ast.Name):
                        m = self.resolve_name(mi.name, b.value.id)
                        if isinstance(m, tuple) and m[0] == "module":
                            r = self.resolve_name(m[1], b.attr) if m[1] in self.modules else self._external_name(m[1], b.attr)
                    if isinstance(r, (ClassInfo, ExternalClass)):
                        bases.append(r)
                    else:
                        bases.append(self.ext["object"])
                if not bases:
                    bases = [self.ext["object"]]
                ci.bases = bases
        for mi in self.modules.values():
            for ci in mi.classes.values():
                if ci.mro is None:
                    ci.mro = _c3(ci, lambda c: c.bases)
        for ci in self.all_classes():
            for c in ci.mro[1:]:
                c.subclasses.add(ci)
        for e in self.ext.values():
            for c in e.mro[1:]:
                c.subclasses.add(e)

    # ------------------------------------------------------------------
    def all_classes(self):
        for mi in self.modules.values():
            yield from mi.classes.values()

    def every_class(self):
        yield from self.ext.values()
        yield from self.all_classes()

    def find_class(self, name):
        """By bare name (unique in repo) or module:name."""
        if ":" in name:
            m, n = name.split(":")
            m = m if m.startswith(PKG) else f"{PKG}.{m}"
            return self.modules[m].classes[n]
        if name in self.ext:
            return self.ext[name]
        found = [c for c in self.all_classes() if c.name == name]
        if len(found) == 1:
            return found[0]
        if not found:
            raise KeyError(name)
        # prefer core
        pref = [c for c in found if ".core." in c.module]
        if len(pref) == 1:
            return pref[0]
        raise KeyError(f"ambiguous class {name}: {found}")

    def find_function(self, key):
        """key = 'jaqalpaq.core.register:Register.resolve_qubit' (package prefix optional).
        A trailing '#k' selects the k-th redefinition (sly actions)."""
        mod, qual = key.split(":")
        if not mod.startswith(PKG):
            mod = f"{PKG}.{mod}"
        ordinal = None
        if "#" in qual:
            qual, o = qual.split("#")
            ordinal = int(o)
        mi = self.modules[mod]
        parts = qual.split(".")
        if len(parts) == 1:
            return mi.functions[parts[0]]
        ci = mi.classes[parts[0]]
        fi = ci.methods[parts[1]]
        if ordinal is not None:
            fi = fi.overloads[ordinal]
        return fi

    def methods_named(self, name):
        """All (class, FuncInfo) pairs over repo classes whose MRO provides method `name`."""
        out = []
        for ci in self.all_classes():
            r = ci.lookup(name)
            if r and r[0] == "method":
                out.append((ci, r[2]))
        return out
