#!/usr/bin/env python3
"""Re-run every kept seeded change against the current machinery and the current /repo HEAD.
usage: tools/reseed_all.py [ids...]   (default: all under seeded/)
For each seed: scratch worktree of /repo HEAD under /tmp, apply patch.diff, tests, demo, then ./check for the property it
breaks and for every check that caught it before; meta.json is updated in place.  Worktrees are removed."""
import json, os, subprocess, sys, time, concurrent.futures as cf
ROOT = os.path.dirname(os.path.dirname(os.path.abspath(__file__)))


def sh(cmd):
    return subprocess.run(cmd, shell=True, capture_output=True, text=True)


def one(sid):
    d = os.path.join(ROOT, "seeded", sid)
    meta = json.load(open(os.path.join(d, "meta.json")))
    breaks = meta["breaks_property"]
    props = [breaks] + [c.split()[-1] for c in meta.get("detected_by", []) if c.split()[-1] != breaks]
    for extra in meta.get("also_check", []):
        if extra not in props:
            props.append(extra)
    wt = f"/tmp/reseed_{sid}"
    sh(f"git -C /repo worktree remove --force {wt}")
    r = sh(f"git -C /repo worktree add -q {wt} HEAD")
    out = {"id": sid}
    try:
        env = f"PYTHONPATH={wt}/src"
        d0 = sh(f"cd {wt} && {env} /venv/bin/python {d}/demo.py")
        a = sh(f"git -C {wt} apply {d}/patch.diff")
        meta["patch_applies"] = a.returncode == 0
        if a.returncode != 0:
            out["error"] = "patch does not apply: " + a.stderr[-300:]
            return out
        t = sh(f"cd {wt} && {env} /venv/bin/python -m pytest -q -p no:cacheprovider --deselect tests/ipc/test_ipc.py::IPCTester::test_bell_prep 2>&1 | tail -1")
        d1 = sh(f"cd {wt} && {env} /venv/bin/python {d}/demo.py")
        meta.update({"demo_clean_exit": d0.returncode, "tests_with_change": t.stdout.strip(), "demo_changed_exit": d1.returncode,
                     "demo_changed_output": (d1.stdout + d1.stderr)[-400:]})
        meta["confirmed"] = bool(d0.returncode == 0 and d1.returncode != 0 and " passed" in t.stdout and "failed" not in t.stdout)
        meta["ran"] = []
        for p in props:
            t0 = time.time()
            c = sh(f"cd {ROOT} && PYVC_REPO_SRC={wt}/src PYVC_NO_EVIDENCE=1 ./check {p}")
            viol = [l for l in c.stdout.splitlines() if l.startswith("VIOLATION")]
            proof = [l for l in viol if "bounded-" not in l]
            meta["ran"].append({"check": f"./check {p}", "exit": c.returncode, "violations": len(viol), "failed_obligations": len(proof),
                                "bounded_violations": len(viol) - len(proof), "first": viol[:3],
                                "summary": [l for l in c.stdout.splitlines() if l.startswith("[")][-1:], "stderr": c.stderr[-300:], "wall_s": round(time.time() - t0, 1)})
        meta["detected_by"] = [x["check"] for x in meta["ran"] if x["exit"] == 1]
        meta["rechecked_at_repo_commit"] = sh("git -C /repo rev-parse --short HEAD").stdout.strip()
        json.dump(meta, open(os.path.join(d, "meta.json"), "w"), indent=1)
        out.update({"confirmed": meta["confirmed"], "detected_by": meta["detected_by"],
                    "how": [(x["check"].split()[-1], x["failed_obligations"], x["bounded_violations"]) for x in meta["ran"]]})
    finally:
        sh(f"git -C /repo worktree remove --force {wt}")
    return out


if __name__ == "__main__":
    ids = sys.argv[1:] or sorted(os.listdir(os.path.join(ROOT, "seeded")))
    with cf.ThreadPoolExecutor(max_workers=3) as ex:
        for res in ex.map(one, ids):
            print(json.dumps(res), flush=True)
