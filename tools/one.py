#!/usr/bin/env python3-vt
"""Development helper: verify the contracts whose key or class name contains <pattern>, print every obligation.
usage: PYTHONHASHSEED=0 python3-vt tools/one.py <pattern> [prop]"""
import os, sys, json
ROOT = os.path.dirname(os.path.dirname(os.path.abspath(__file__)))
sys.path.insert(0, ROOT)
os.chdir(ROOT)
from pyvc import cli

pat = sys.argv[1]
eng = cli._engine()
n = 0
for key, lst in sorted(eng.cs.contracts.items()):
    for c in lst:
        if pat in key or pat == c.name:
            prop = sys.argv[2] if len(sys.argv) > 2 else (c.props[0] if c.props else "C00")
            for sc in [None] + list(c.opts.get("also_for") or []):
                r = cli.worker((prop, key, c.name, sc, "quick", []))
                n += 1
                print(f"== {key} [{c.name}] self={sc} status={r['status']} paths={r.get('paths')} vac={r.get('vacuous_paths')} canary={r.get('canary')} time={r.get('time')} reason={str(r.get('reason'))[-1500:]}")
                for o in r["obligations"]:
                    flag = "ok  " if o["result"] == "discharged" else "FAIL"
                    print(f"   {flag} {o['id']} [{o['solver']}] {o['time']}s {'' if o['result']=='discharged' else str(o.get('reason'))[:200]}")
                    if o["result"] != "discharged" and o.get("model"):
                        print("        model:", json.dumps(o["model"], default=str)[:1500])
                print("   assumptions:", r.get("assumptions"))
for name, c in sorted(eng.cs.lemma_classes.items()):
    if pat in ("lemma:" + name) or pat == name:
        prop = sys.argv[2] if len(sys.argv) > 2 else (c.props[0] if c.props else "C00")
        r = cli.worker((prop, "lemma:" + name, name, None, "quick", []))
        n += 1
        print(f"== lemma:{name} status={r['status']} canary={r.get('canary')} time={r.get('time')} reason={str(r.get('reason'))[-1500:]}")
        for o in r["obligations"]:
            flag = "ok  " if o["result"] == "discharged" else "FAIL"
            print(f"   {flag} {o['id']} [{o['solver']}] {o['time']}s {'' if o['result']=='discharged' else str(o.get('reason'))[:300]}")
        print("   assumptions:", r.get("assumptions"))
print("contracts run:", n)
