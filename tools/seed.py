#!/usr/bin/env python3
"""Confirm a seeded change and run checks against it on a scratch worktree.
usage: tools/seed.py <src_dir with patch.diff demo.py README.txt> <seed_id> <breaks_prop> [check props...]
Keeps it as /verif/seeded/<seed_id>/ (patch.diff, demo.py, README.txt, meta.json)."""
import json, os, shutil, subprocess, sys, time
ROOT = os.path.dirname(os.path.dirname(os.path.abspath(__file__)))
src, sid, breaks = sys.argv[1:4]
props = sys.argv[4:] or [breaks]
wt = f"/tmp/seedwt_{sid}"
def sh(cmd, **kw):
    return subprocess.run(cmd, shell=True, capture_output=True, text=True, **kw)
sh(f"git -C /repo worktree remove --force {wt}")
r = sh(f"git -C /repo worktree add -q {wt} HEAD")
assert r.returncode == 0, r.stderr
meta = {"id": sid, "breaks_property": breaks, "ran": []}
try:
    env = f"PYTHONPATH={wt}/src"
    d0 = sh(f"cd {wt} && {env} /venv/bin/python {src}/demo.py")
    meta["demo_clean_exit"] = d0.returncode
    a = sh(f"git -C {wt} apply {src}/patch.diff")
    meta["patch_applies"] = a.returncode == 0
    if a.returncode != 0:
        meta["apply_error"] = a.stderr[-500:]
    t = sh(f"cd {wt} && {env} /venv/bin/python -m pytest -q -p no:cacheprovider --deselect tests/ipc/test_ipc.py::IPCTester::test_bell_prep 2>&1 | tail -1")
    meta["tests_with_change"] = t.stdout.strip()
    d1 = sh(f"cd {wt} && {env} /venv/bin/python {src}/demo.py")
    meta["demo_changed_exit"] = d1.returncode
    meta["demo_changed_output"] = (d1.stdout + d1.stderr)[-400:]
    meta["confirmed"] = bool(meta["patch_applies"] and d0.returncode == 0 and d1.returncode != 0 and " passed" in t.stdout and "failed" not in t.stdout)
    for p in props:
        t0 = time.time()
        c = sh(f"cd {ROOT} && PYVC_REPO_SRC={wt}/src PYVC_NO_EVIDENCE=1 ./check {p}")
        viol = [l for l in c.stdout.splitlines() if l.startswith("VIOLATION")]
        meta["ran"].append({"check": f"./check {p}", "exit": c.returncode, "violations": len(viol), "first": viol[:3],
                            "summary": [l for l in c.stdout.splitlines() if l.startswith("[")][-1:], "stderr": c.stderr[-300:], "wall_s": round(time.time() - t0, 1)})
    meta["detected_by"] = [x["check"] for x in meta["ran"] if x["exit"] == 1]
finally:
    sh(f"git -C /repo worktree remove --force {wt}")
dst = os.path.join(ROOT, "seeded", sid)
os.makedirs(dst, exist_ok=True)
for f in ("patch.diff", "demo.py", "README.txt"):
    if os.path.exists(os.path.join(src, f)):
        shutil.copy(os.path.join(src, f), os.path.join(dst, f))
meta["needs_to_manifest"] = open(os.path.join(src, "README.txt")).read()[:1500] if os.path.exists(os.path.join(src, "README.txt")) else ""
json.dump(meta, open(os.path.join(dst, "meta.json"), "w"), indent=1)
print(json.dumps({k: meta[k] for k in ("id", "confirmed", "tests_with_change", "demo_clean_exit", "demo_changed_exit", "detected_by")}, indent=0))
for x in meta["ran"]:
    print(x["check"], "exit", x["exit"], "violations", x["violations"], x["summary"], x["stderr"][-200:])
