import sys
pid=sys.argv[1]
prop=open(f"/tmp/prop_{pid}.txt").read()
print(f"""You are helping to evaluate a verification effort by seeding realistic bugs ("mutants") into a Python library.

The library is JaqalPaq (Python parser, circuit IR, transformation passes, code generator and unitary emulator for the Jaqal quantum assembly language). You have your own scratch git worktree of it at /tmp/mut_{pid} (source under /tmp/mut_{pid}/src/jaqalpaq, tests under /tmp/mut_{pid}/tests). Work ONLY inside /tmp/mut_{pid} and /tmp/mut_{pid}_out. Do NOT read, write or run anything under /repo or /verif.

How to run things: the package is imported from your worktree when you set PYTHONPATH, e.g.
  cd /tmp/mut_{pid} && PYTHONPATH=/tmp/mut_{pid}/src /venv/bin/python -m pytest -q -p no:cacheprovider --deselect tests/ipc/test_ipc.py::IPCTester::test_bell_prep
(that suite takes a few seconds; 297 tests pass on the unchanged tree; the deselected IPC test always times out and is not part of the baseline). Run your own demo programs the same way (PYTHONPATH=/tmp/mut_{pid}/src /venv/bin/python demo.py). There is no network. The optional 'qscout' gate-model package is NOT installed, so programs must not use 'from qscout... usepulses'; to emulate, build native gate definitions by hand (jaqalpaq.core.gatedef.GateDefinition / BusyGateDefinition with ideal_unitary functions, numpy is available) and pass them via parse_jaqal_string(text, inject_pulses=gates, autoload_pulses=False) or CircuitBuilder(native_gates=...), then jaqalpaq.emulator.run_jaqal_circuit(circuit). Without a native gate set, parse with parse_jaqal_string(text, autoload_pulses=False).

The semantic property under study:

{prop}

Your task: produce TWO different, independent changes (call them A and B) to the library source (files under src/jaqalpaq only, not tests) such that each change
  1. BREAKS the property above (for some inputs the library now behaves contrary to the statement),
  2. still imports/compiles and still passes the whole existing test suite (the command above, 297 passed),
  3. is realistic: the kind of slip or well-meant "simplification/optimisation/refactor" a maintainer could make - not sabotage that ordinary use would expose at once. Prefer changes that need something specific to manifest: an unusual input (deep alias chain, stride > 1, let-valued bound, zero/boundary count, nested construct, particular argument kinds), a multi-step sequence of operations, or two cooperating sites that each look fine alone.
  4. A and B should touch different functions/mechanisms if possible.

For each change write, under /tmp/mut_{pid}_out/A and /tmp/mut_{pid}_out/B:
  - patch.diff : `git diff` of the change against the worktree HEAD (apply-able with `git apply` from the repository root; only src/ files),
  - demo.py   : a small self-contained program that exits 0 (prints PASS) on the unchanged tree and exits non-zero (prints FAIL with what it saw) with the change applied; it should check the behaviour the property talks about, through the library's public API,
  - README.txt: 5-10 lines: what the change is, which clause of the property it breaks, what is needed for it to manifest, and the exact commands you ran with their outcomes (tests with the change: N passed; demo without change: PASS; demo with change: FAIL).
Produce the diffs one at a time: make change A, verify (tests pass, demo fails), save files, `git checkout -- .` to return to the clean tree, verify the demo passes on the clean tree, then do B the same way. Leave the worktree clean (git status empty) at the end.

Read the relevant source first to find good spots. Keep each patch small (a few lines). Your final message should just list, for A and B, a one-line description and confirm the three outcomes.""")
