#!/usr/bin/env python3
"""Fill the generated parts of DESIGN.md (between BEGIN/END markers) from the machinery's own data:
known_findings.json, seeded/*/meta.json, contracts/*.py, bounded/*.py, tools/gen_manifest.py CLAIMS."""
import ast, glob, json, os, re, sys
ROOT = os.path.dirname(os.path.dirname(os.path.abspath(__file__)))
sys.path.insert(0, ROOT)
from pyvc.contracts import ContractSet

doc = open(os.path.join(ROOT, "DESIGN.md")).read()


def put(marker, text):
    global doc
    a, b = f"<!-- BEGIN {marker} -->", f"<!-- END {marker} -->"
    i, j = doc.index(a), doc.index(b)
    doc = doc[:i + len(a)] + "\n" + text.rstrip() + "\n" + doc[j:]


# ---- findings
F = json.load(open(os.path.join(ROOT, "known_findings.json")))["findings"]
rows = ["| id | property | fix commit | what failed (witness in known_findings.json) | first reported by |", "|---|---|---|---|---|"]
for x in sorted(F, key=lambda x: int(x["id"][1:])):
    rows.append(f"| {x['id']} | {x['property']} | `{x['commit']}` | {x['what_failed'].replace('|', '/')} | {x['obligation'].replace('|', '/')} |")
put("FINDINGS", "\n".join(rows))

# ---- seeds
rows = ["| seed | breaks | what the change is (first line of its README) | caught by (failed proof obligations / bounded counterexamples) |", "|---|---|---|---|"]
for d in sorted(glob.glob(os.path.join(ROOT, "seeded", "*"))):
    m = json.load(open(os.path.join(d, "meta.json")))
    rd = ""
    p = os.path.join(d, "README.txt")
    if os.path.exists(p):
        rd = open(p).read().strip().split("\n")[0][:170]
    how = []
    for x in m.get("ran", []):
        if x["exit"] == 1:
            fo = x.get("failed_obligations")
            bo = x.get("bounded_violations")
            if fo is None:
                mm = re.search(r"failed=(\d+)", (x.get("summary") or [""])[0] if x.get("summary") else "")
                fo = int(mm.group(1)) if mm else 0
                bo = x["violations"] - fo
            how.append(f"`{x['check']}` ({fo} obligations / {bo} bounded)")
    rows.append(f"| {os.path.basename(d)} | {m['breaks_property']} | {rd.replace('|', '/')} | {'; '.join(how) or '**not caught**'} |")
put("SEEDS", "\n".join(rows))

# ---- per property
src = open(os.path.join(ROOT, "tools", "gen_manifest.py")).read()
tree = ast.parse(src)
CLAIMS = None
for n in tree.body:
    if isinstance(n, ast.Assign) and getattr(n.targets[0], "id", "") == "CLAIMS":
        g = {"TECH": ""}
        CLAIMS = eval(compile(ast.Expression(n.value), "claims", "eval"), {"dict": dict, "TECH": ""})
props = [json.loads(l) for l in open(os.path.join(ROOT, "properties.jsonl"))]
cs = ContractSet()
out = []
for p in props:
    pid = p["id"]
    c = CLAIMS.get(pid)
    out.append(f"### {pid} — {p['title']}  (level claimed: {c['level'] if c else 'not claimed'})\n")
    if not c:
        continue
    out.append(f"**Decided how.** {c['text']}\n")
    out.append(f"**Assumed / not reached.** {c['note']}\n")
    ver = [(k, ci.name) for k, lst in sorted(cs.contracts.items()) for ci in lst if pid in ci.props]
    asm = [(k, ci.name) for k, lst in sorted(cs.assumed.items()) for ci in lst if pid in ci.props]
    if ver:
        out.append("**Functions under verified contract** (" + str(len(ver)) + "): " + ", ".join(f"`{k.split(':')[1]}`" for k, _ in ver) + ".\n")
    lem = [n for n, ci in sorted(cs.lemma_classes.items()) if pid in ci.props]
    if lem:
        out.append("**Lemmas proved by induction over the object graph:** " + ", ".join(f"`{n}`" for n in lem) + ".\n")
    if asm:
        out.append("**Assumed contracts used:** " + ", ".join(f"`{k.split(':')[1]}`" for k, _ in asm) + ".\n")
    bp = os.path.join(ROOT, "bounded", pid.lower() + ".py")
    if os.path.exists(bp):
        bt = ast.parse(open(bp).read())
        vals = {}
        for n in bt.body:
            if isinstance(n, ast.Assign) and getattr(n.targets[0], "id", "") in ("RULE", "BOUND"):
                try:
                    vals[n.targets[0].id] = ast.literal_eval(n.value)
                except Exception:
                    pass
        if vals:
            out.append(f"**Bounded stand-in** (`bounded/{pid.lower()}.py`, labelled bounded): {vals.get('RULE', '')} — bound: {vals.get('BOUND', '')}.\n")
    fs = [x["id"] for x in F if x["property"] == pid]
    if fs:
        out.append("**Defects found by this check and repaired:** " + ", ".join(fs) + ".\n")
put("PROPERTIES", "\n".join(out))
open(os.path.join(ROOT, "DESIGN.md"), "w").write(doc)
print("DESIGN.md tables regenerated")
