#!/usr/bin/env python3
"""Regenerate MANIFEST.json from the table below (claimed checks) + properties.jsonl."""
import json, os
ROOT = os.path.dirname(os.path.dirname(os.path.abspath(__file__)))
props = [json.loads(l) for l in open(os.path.join(ROOT, "properties.jsonl"))]

TECH = "contract-based deductive verification: VCs generated from /repo's ASTs by pyvc, discharged by z3; counter-models replayed on the real code"
CLAIMS = {
 "C06": dict(level="proof", ref="7/C06",
   text="Register.resolve_qubit / resolve_size (and their helpers) are proved against the property's own alias arithmetic (spec functions root/phys/size_of) for every alias chain depth, every literal or let-valued start/stop/step and every index; raise conditions are proved exactly (raises iff the index is out of range at some level). Proof level because the property's core sentence is the postcondition discharged for all inputs.",
   note="Trusted: pyvc encoder, z3, CPython semantics as modelled; IR graphs acyclic; products of two non-literals are uninterpreted in proof mode (congruence only); consumers other than Register (fill_in_map, used-qubit visitor, emulator) are covered by their own obligations listed in evidence or by the bounded stand-in, see evidence.functions_under_contract."),
 "C09": dict(level="proof", ref="7/C09",
   text="Every statement-level method of SubcircuitExpander (visit_default, visit_LoopStatement, visit_BlockStatement, process_subcircuit, process_non_subcircuit_block) is proved to return a tree related to its input by the relational spec xsub: each subcircuit block becomes a non-subcircuit block  prepare() <visited children> measure(), every other statement, nesting, block kind and loop count is unchanged and no subcircuit block remains; _choose_bounding_gate is proved to pick the caller's definition, else the native one, else a fresh one. The proof is modular induction over the statement tree (each method against the others' contracts), for all trees. Header data, macro bodies and the equivalence of the two spellings under execution are covered by the bounded stand-in (labelled bounded).",
   note="Assumed (listed in evidence.assumptions): AbstractGate.__call__ on a parameterless definition returns its GateStatement (assumed contract, not yet verified); statement trees are finite/acyclic. SubcircuitExpander.visit_Circuit and run/result pipeline positions are only exercised by the bounded stand-in."),
 "C04": dict(level="other", ref="7/C04",
   text="Deductive core: the structural conjuncts of macro expansion are proved for all inputs on the real functions - filter_float (integral floats become ints, nothing else changes), GateReplacer.visit_Parameter (a parameter is replaced by exactly the call's argument of that name, unbound parameters stay), MacroExpander.visit_LoopStatement (loop count unchanged), visit_default (identity), visit_GateStatement/replace_gate (non-macro gates returned unchanged; a call with the wrong number of arguments raises JaqalError; nothing but JaqalError escapes). The meaning-preservation sentence itself (call-by-substitution to any macro nesting depth, subcircuit annotations, header data) is NOT proved: it is exercised by the bounded stand-in against an independent reference semantics. Level 'other': proved lemmas + bounded exploration, separated in evidence.",
   note="Assumed contracts (listed in evidence): GateReplacer.visit_Macro / visit_LoopStatement and MacroExpander.visit_BlockStatement are used at call sites through assumed (unverified) contracts; the splice loop and substitution walk are covered only by the bounded stand-in."),
 "C05": dict(level="other", ref="7/C05",
   text="Deductive core: LetFiller.resolve_constant / visit_Constant are proved to return the overriding value when the dictionary has the name, else the declared value (spec cval, the property's environment), for LetFiller and its subclass RegisterVisitor; visit_default is the identity (so macro parameters that shadow a constant are left alone); visit_LoopStatement and visit_BlockStatement are proved to emit the same block kind, the subcircuit annotation with its substituted count, the substituted loop count and one entry per child. The end-to-end sentence (no constant left anywhere, meaning equal to the original in the chosen environment, through the circuit rebuild) is exercised by the bounded stand-in with override dictionaries.",
   note="Assumed: LetFiller.visit_GateStatement (assumed contract), circuitbuilder.build (the rebuild) is outside the proved part; statement trees acyclic."),
 "C13": dict(level="other", ref="7/C13",
   text="Deductive core: UsedQubitIndicesVisitor.visit_NamedQubit is proved to return exactly {root register name: {phys index}} for every alias chain (sharing the C06 spec), raising JaqalError exactly when the reference is out of range at some level. The set algebra of merge_into and the block/macro/loop traversal are NOT yet under contract (dict-of-sets mutation of a caller-owned container is outside what pyvc models); exactness through macros, loops, blocks, busy and idle gates, rejection iff two parallel branches intersect, and branch-order independence are exercised by the bounded stand-in against an independent reference.",
   note="Trusted: pyvc, z3; bounded part uses bounded/ref.py's reference semantics as oracle."),
 "C14": dict(level="other", ref="7/C14",
   text="Deductive core, proved for all inputs: (1) NamedQubit.__init__ raises JaqalError exactly when the literal index is not an integer value in 0..size-1 of a source whose size is known - so every qubit reference that exists (parsed, let-substituted, overridden, macro-substituted: all go through this constructor) is in range; (2) Register.__getitem__ likewise; (3) Register.resolve_qubit / NamedQubit.resolve_qubit raise JaqalError exactly when the index is out of range at some level of the alias chain and otherwise return the C06 index - never a different qubit; (4) Parameter.validate accepts exactly the property's kind table; (5) replace_gate rejects wrong macro arity. Undefined / doubly defined identifiers, non-register sources, unknown gates and slice bounds at construction are exercised by the exhaustive boundary matrix of the bounded stand-in (not proved).",
   note="Builder functions (Builder.build, add_to_context, build_map, get_gate_definition) and Register.__init__ are not under contract; IR graphs acyclic; sizes given by nested constants-of-constants are treated as unknown at construction (checked at resolution)."),
 "C18": dict(level="other", ref="7/C18",
   text="Deductive core, proved for all values: Parameter.validate accepts exactly the property's kind table (spec `fits`: qubit / register / integer incl. integral floats and integral float lets / float / untyped accepts anything; annotated values by their kind) and raises JaqalError otherwise - nothing else escapes; IdleGateDefinition.__init__ gives the derived gate its parent's parameter list and the name I_<parent>, and refuses prepare/measure. AbstractGate.call (positional == keyword, arity) and stretched_gates are NOT under contract (star-args / closures over loop variables are outside the verified subset): they are exercised by the bounded signature matrix, idle gates under emulation and stretched unitaries.",
   note="Trusted: pyvc, z3; float is a real in the integrality test (no inf/nan)."),
 "C20": dict(level="other", ref="7/C20",
   text="Deductive core, proved for all objects: AnnotatedValue.__eq__ (also as inherited by Parameter), Constant.__eq__ and NamedQubit.__eq__ return exactly the field-wise comparison the property lists (name+kind; name+let value by numeric value; name+source register name+index) and False - never an exception - for objects lacking the fields; BlockStatement.__eq__ and LoopStatement.__eq__ are proved to return False whenever block kind, subcircuit annotation, subcircuit count or loop count differ, including the kind of a loop's body block (the discrimination clause for those tokens). Reflexivity/symmetry as whole-tree lemmas, equality of lists of statements and the relation to generated text are exercised by the bounded single-token-mutant matrix.",
   note="GateStatement/Register/Circuit/Macro/AbstractGate/UsePulsesStatement __eq__ (zip_longest over dict views, NaN handling, recursive list equality) are not under contract; list equality inside BlockStatement.__eq__ is an uninterpreted reflexive predicate in the proofs."),
 "C01": dict(level="other", ref="7/C01",
   text="Deductive part: (1) data lemmas over the lexer patterns extracted from slyparse.py on every run, decided by z3's regex theory for ALL strings: every string of the shape Python prints for a finite float is in L(NUMBER), every printed int is in L(INT) and not in L(NUMBER), no rule sly tries earlier matches a prefix of a printed literal, and a printed float is never cut into INT followed by an identifier; (2) generate_jaqal_value is proved to print identifiers by name and ints by str(). The round trip itself (generator -> sly LALR tables -> builder) cannot be expressed as a contract on repository functions (the tables exist only inside sly at import time): it is exercised by the bounded stand-in (programs + literal grid, byte-identical second generation).",
   note="Assumed: sly lexes with Python re semantics over the master regex in class-body order; the shape of repr(float) (cross-checked natively on the grid). Not reached: sly's table construction."),
 "C02": dict(level="other", ref="7/C02",
   text="Deductive part: data lemmas for ALL strings - the block-comment pattern is prefix-free (a comment ends at the first */, nothing outside a comment is swallowed) and a line comment never contains a newline; contracts proved on the error path: JaqalParser.error / raise_error always raise JaqalParseError (also for the None token at end of input), compute_col never raises, returns 0 without text and a column >= 1 otherwise and does not treat index 0 as absent. 'Accepts exactly the grammar' and LALR error positions are properties of sly's generated automaton, not of any repository function: exercised by the bounded stand-in (independent expected statement trees, 9 layout rewritings per program, near-misses with position checks).",
   note="Assumed: sly reduces along the derivation and calls error(token|None); the ~35 semantic actions are not individually under contract (covered by the expected-tree oracle of the bounded stand-in)."),
 "C16": dict(level="other", ref="7/C16",
   text="Deductive part, proved for all inputs: the exception-safety obligations (raises_only) of the functions on the reference-resolution path - Register.resolve_qubit / resolve_size / __getitem__, NamedQubit.__init__ / resolve_qubit, Parameter.validate raise nothing but JaqalError, exactly under the stated conditions; JaqalParser.error / raise_error / JaqalLexer.error always raise JaqalParseError and JaqalParseError.__init__ stores the position it is given; the lexer defines an error handler (AST scan). 'Whatever text' and 'no sticky state' are whole-input / whole-history claims: exercised by the bounded stand-in (grammar-guided mutants, 5 s watchdog, repeated processing with other texts in between).",
   note="Not reached: termination and internal state of sly; import-state configuration of _import.py; Builder.* functions are not under contract (bounded only)."),
 "C11": dict(level="other", ref="7/C11",
   text="Deductive part: frame conditions. Every store, item store and mutating container method executed by a function under contract must hit an object allocated in that activation or something in its `modifies` clause, else the obligation frame@L fails. Proved (modifies = nothing, resp. only the visitor's own scratch field) for 14 functions of the passes: SubcircuitExpander.{visit_Circuit, visit_default, visit_LoopStatement, visit_BlockStatement, process_subcircuit, process_non_subcircuit_block}, MacroExpander.{visit_Circuit, visit_LoopStatement, visit_GateStatement, visit_default}, LetFiller.{visit_default, visit_LoopStatement, visit_BlockStatement} (+RegisterVisitor), including the fact that the new circuit SHARES the input's native gate table (so a store into it is a store into the input). Not under contract: fill_in_map, unit timing, used-qubit analysis, generator, emulator, output parsing, the builder's rebuild - for these and for 'any number of times, any order' the bounded stand-in compares deep snapshots and fresh-copy results over sequences of entry points.",
   note="Assumed: normalize_native_gates returns a non-empty dict argument unchanged (assumed contract read off the code); writes inside numpy / sly do not touch circuits."),
 "C08": dict(level="other", ref="7/C08",
   text="Deductive part: DiscoverSubcircuits.visit_GateStatement is proved to be one step of the bracket automaton - measure_all appends exactly one trace (the open one) at the end of the list, so traces are numbered in visit (= flat) order, prepare_all never appends, other gates change nothing; OutputParser.process_trace is proved to consume exactly one output, append exactly one Readout numbered with the running readout index, carrying the output value and attributed to the subcircuit being visited. Termination of the trace walker, the visit order through nested loops (zero counts, let-valued counts), non-zero probability of sampled outcomes and frequency counts are exercised by the bounded stand-in with a 5 s watchdog (it found and the repository now fixes the zero-count-loop hang).",
   note="Assumed: ReadoutSubcircuit.accept_readout (numpy update) and UsedQubitIndicesVisitor.visit_GateStatement via assumed contracts; list iterators modelled as (sequence, position). TraceVisitor.visit_BlockStatement/visit_LoopStatement and the emulator walker are not under contract."),
 "C12": dict(level="other", ref="7/C12",
   text="Deductive part: DiscoverSubcircuits.visit_GateStatement is proved, for every state of the walker, to implement the property's automaton step: a gate other than prepare_all with nothing open raises JaqalError (so every gate lies between a prepare and the following measure, every measure is preceded by a prepare), prepare_all opens a new trace discarding the open one, measure_all closes the open trace and appends it as the next subcircuit; nothing but JaqalError escapes and only the walker's own state is modified. The loop rule (visit_BlockStatement's `had_started and reps > 1`), trailing unmatched prepare and language-level acceptance are exercised by the bounded stand-in against the automaton written independently on the reference meaning.",
   note="Assumed: the used-qubit half of the step through an assumed contract; visit_BlockStatement iterates a generator (trace_statements) that pyvc does not inline."),
}
NA_REASON = "check not built yet in this round (work in progress; DESIGN.md section 7 gives the planned contracts)"

checks = []
na = []
for p in props:
    pid = p["id"]
    if pid in CLAIMS:
        c = CLAIMS[pid]
        checks.append({
            "property_id": pid,
            "quick_cmd": f"./check {pid} --tier quick",
            "thorough_cmd": f"./check {pid} --tier thorough",
            "evidence_file": f"evidence/{pid}.json",
            "replay_cmd_template": "./check replay {path}",
            "engine": "pyvc",
            "level_claimed": {"category": c["level"], "text": c["text"], "design_ref": c["ref"]},
            "level_note": c["note"],
            "technique": c.get("technique", TECH),
        })
    else:
        na.append({"property_id": pid, "reason": NA_REASON})
m = {
 "version": 1,
 "setup_cmd": "./setup.sh",
 "hooks": {"guard": "JAQALPAQ_VERIF", "enable": "none needed: contracts are sidecar files under /verif/contracts; /repo is only read (ast.parse) and imported",
           "baseline_off_cmd": "cd /repo && /venv/bin/python -m pytest -ra -q -p no:cacheprovider --timeout=900 --continue-on-collection-errors",
           "source_commits": [], "add_only": True},
 "engines": [{"name": "pyvc", "path": "pyvc/", "serves_properties": sorted(CLAIMS), "kind_free_text": "home-built VC generator (Python AST -> z3) with sidecar contracts, model replay on real code, bounded stand-ins"}],
 "checks": checks,
 "not_applicable": na,
 "notes": "fix: commits in /repo are recorded in known_findings.json (status fixed). Exit codes: 0 held, 1 VIOLATION, 3 checker error (never a verdict).",
}
json.dump(m, open(os.path.join(ROOT, "MANIFEST.json"), "w"), indent=1)
print("claimed:", sorted(CLAIMS), "not_applicable:", len(na))
