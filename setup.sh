#!/bin/bash
# Offline setup: nothing to download or build; verify the tools the checks need are present.
set -e
cd "$(dirname "$0")"
python3-vt -c "import z3; assert z3.get_version_string().startswith('5.'), z3.get_version_string()"
/venv/bin/python -c "import jaqalpaq.core, sly, numpy"
python3-vt -m compileall -q pyvc >/dev/null
mkdir -p out evidence replays
echo "setup ok"
