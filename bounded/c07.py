#!/usr/bin/env python3
"""C07 bounded stand-in: identifiers resolve lexically; a statement's meaning ignores unrelated statements."""
import itertools
import sys, os
sys.path.insert(0, os.path.dirname(os.path.dirname(os.path.abspath(__file__))))
import numpy
from bounded import common, ref, emu
from bounded.common import parse_native, JaqalError

RULE = ("systematic scope x collision matrix: a macro whose parameter is named like a let / the register / a register alias / a single-qubit "
        "alias / nothing, used as a plain argument, as an array name or as an index; the SAME statement text placed in that macro, in a second "
        "macro with a different parameter list, and in the main body, in every order of definition and use, with and without let substitution "
        "(overrides on the colliding let) and macro expansion; oracle: the lexical-scoping reference semantics (bounded/ref.py: parameters "
        "shadow header bindings inside the macro only; arguments are evaluated in the caller's scope - also through nested calls whose callee reuses the name), the used-qubit analysis of each unexpanded call and, for valid bracketed programs, the emulator's state; non-trivial = the program has a "
        "name collision and the statement text occurs in two scopes")
BOUND = "register q[4], <= 2 macros, <= 3 uses of the shared statement text"
BUDGET_S = {"quick": 40, "thorough": 300}
EXHAUSTIVE_IN_THOROUGH = True


def cases(tier, rng):
    hdr = {"lets": [("k", 1), ("ang", 0.5)], "n": 4, "maps": [("a", "q", ("slice", 1, 4, None)), ("s", "q", ("idx", 3))]}
    stmts = {
        "arg":   lambda nm: ("gate", "X", [("id", nm)]),
        "index": lambda nm: ("gate", "X", [("q", "q", nm)]),
        "aidx":  lambda nm: ("gate", "X", [("q", "a", nm)]),
        "array": lambda nm: ("gate", "X", [("q", nm, 0)]),
        "num":   lambda nm: ("gate", "Rx", [("q", "q", 0), ("id", nm)]),
    }
    out = []
    for use, mk in stmts.items():
        for pname in ("k", "s", "a", "q", "ang", "z"):
            st = mk(pname)
            # which argument kind does a macro with parameter `pname` need so that `st` is meaningful inside it
            if use == "arg":
                argsets = [[("q", "q", 0)], [("id", "s")]]
            elif use in ("index", "aidx"):
                argsets = [[("num", 0)], [("num", 2)]]
            elif use == "array":
                argsets = [[("id", "q")], [("id", "a")]]
            else:
                argsets = [[("num", 0.25)]]
            for margs in argsets:
                for order in itertools.permutations(["macro_call", "main", "other_macro_call"], 3 if tier == "thorough" else 2):
                    p = dict(hdr)
                    p["macros"] = [("m1", [pname], ("seq", [st])), ("m2", ["w", pname] if pname != "z" else ["w", "z"], ("seq", [st, ("gate", "H", [("id", "w")])]))]
                    body = []
                    for o in order:
                        if o == "macro_call":
                            body.append(("gate", "m1", margs))
                        elif o == "main":
                            body.append(st)
                        else:
                            body.append(("gate", "m2", [("q", "q", 2)] + margs))
                    p["body"] = [("gate", "prepare_all", [])] + body + [("gate", "measure_all", [])]
                    out.append((p, use, pname))
    if tier != "thorough":
        rng.shuffle(out)
        out = out[:700]
    # arguments are written in the CALLER's scope: a callee parameter named like an identifier inside the argument
    # (an index, an array name) must not capture it - seen by every consumer that reads a call without expanding it
    for idx in range(4):
        for regarg in ("q", "a"):
            p = dict(hdr)
            p["macros"] = [("cfl", ["j", "x"], ("seq", [("gate", "X", [("id", "x")]), ("gate", "Rx", [("id", "x"), ("id", "j")])])),
                           ("chi", ["j"], ("seq", [("gate", "cfl", [("num", 0), ("q", "q", "j")])])),
                           ("con", ["rr"], ("seq", [("gate", "X", [("id", "rr")])])),
                           ("ctw", ["rr"], ("seq", [("gate", "con", [("q", "rr", 1)])]))]
            p["body"] = [("gate", "prepare_all", []), ("gate", "chi", [("num", idx)]), ("gate", "ctw", [("id", regarg)]), ("gate", "measure_all", [])]
            out.insert(0, (p, "nested-arg", "j"))
    # a parameter named like the REGISTER, in a macro that also uses an alias of that register: alias fill-in must not
    # produce a reference that the parameter captures (it may refuse)
    for arg in (0, 2):
        p = dict(hdr)
        p["macros"] = [("mq", ["q"], ("seq", [("gate", "X", [("q", "a", 0)]), ("gate", "H", [("id", "q")])]))]
        p["body"] = [("gate", "prepare_all", []), ("gate", "mq", [("q", "a", arg)]), ("gate", "measure_all", [])]
        out.insert(0, (p, "register-named-parameter", "q"))
    # the callee's bindings end with the call: a parameter name shared by caller and callee means the caller's binding
    # again in the statements that follow the nested call
    for a, b in ((0, 2), (3, 1)):
        p = dict(hdr)
        p["macros"] = [("nfl", ["t"], ("seq", [("gate", "X", [("id", "t")])])),
                       ("nbo", ["t", "u"], ("seq", [("gate", "nfl", [("id", "u")]), ("gate", "H", [("id", "t")]), ("gate", "nfl", [("id", "t")])]))]
        p["body"] = [("gate", "prepare_all", []), ("gate", "nbo", [("q", "q", a), ("q", "q", b)]), ("gate", "measure_all", [])]
        out.insert(0, (p, "after-nested-call", "t"))
    # a let used inside an INNER macro keeps denoting the let when the macro is called from an outer macro whose
    # parameter happens to have the let's name (the caller's bindings must not leak into the callee's body)
    for arg in (0, 2, 3):
        p = dict(hdr)
        p["macros"] = [("lin", ["x"], ("seq", [("gate", "X", [("q", "q", "k")]), ("gate", "H", [("id", "x")]), ("gate", "Rx", [("q", "a", "k"), ("id", "ang")])])),
                       ("lou", ["k"], ("seq", [("gate", "lin", [("q", "q", "k")])])),
                       ("lo2", ["ang", "k"], ("seq", [("gate", "lin", [("q", "q", "k")]), ("gate", "Rx", [("q", "q", 0), ("id", "ang")])]))]
        p["body"] = [("gate", "prepare_all", []), ("gate", "lou", [("num", arg)]), ("gate", "lo2", [("num", 1.5), ("num", arg)]), ("gate", "measure_all", [])]
        out.insert(0, (p, "let-in-callee", "k"))
    for p, use, pname in out:
        text = ref.to_text(p)
        yield text, {"prog": p, "text": text}, pname != "z"


SIG = {"X": ("qubit",), "H": ("qubit",), "Rx": ("qubit", "numv"), "prepare_all": (), "measure_all": ()}


def kinds_ok(t):
    if t[0] == "gate":
        return tuple(a[0] for a in t[2]) == SIG.get(t[1], ())
    return all(kinds_ok(c) for c in (t[1] if t[0] in ("seq", "par") else t[2]))


def check(pl):
    from jaqalpaq.core.algorithm import expand_macros, fill_in_let
    from jaqalpaq.emulator import run_jaqal_circuit
    p, text = pl["prog"], pl["text"]
    for ov in ({}, {"k": 2}):
        try:
            ref.static_valid(p, ov)
            want = ref.sem(p, ov)
            valid = kinds_ok(want)
        except ref.RefError:
            valid = False
        try:
            c = parse_native(text)
            stages = [("parse", c, ov)]
            f = fill_in_let(c, ov)
            stages.append(("fill_in_let", f, {}))
            e = expand_macros(c)
            stages.append(("expand_macros", e, ov))
            stages.append(("fill_in_let+expand_macros", expand_macros(f), {}))
            try:
                from jaqalpaq.core.algorithm.fill_in_map import fill_in_map
                from jaqalpaq.generator import generate_jaqal_program
                mfill = fill_in_map(f)
                stages.append(("fill_in_let+fill_in_map", mfill, {}))
                stages.append(("fill_in_let+fill_in_map, generated and re-parsed", parse_native(generate_jaqal_program(mfill)), {}))
            except JaqalError:
                pass        # alias fill-in may refuse a circuit (documented: aliases as macro arguments, hidden registers)
        except JaqalError as ex:
            if valid:
                return f"valid program (overrides {ov}) rejected: {ex}"
            continue
        if not valid:
            continue
        for name, circ, env in stages:
            try:
                got = ref.circuit_sem(circ, env)
            except ref.RefError as ex:
                return f"after {name} (overrides {ov}) a statement has no lexically scoped meaning: {ex}"
            if got != want:
                return f"after {name} (overrides {ov}) the meaning differs from lexical scoping:\n want {want}\n got  {got}"
        n = 4
        if not ov:
            # consumers that read a macro call WITHOUT expanding it (used-qubit analysis) see the same lexical meaning
            from jaqalpaq.core.algorithm.used_qubit_visitor import get_used_qubit_indices
            q1 = dict(p)
            for i, st in enumerate(p["body"]):
                if st[1] in ("prepare_all", "measure_all"):
                    continue
                q1["body"] = [st]
                try:
                    w = ref.used_qubits(ref.sem(q1), n)
                    g1 = get_used_qubit_indices(c.body.statements[i])
                except ref.RefError:
                    continue
                except JaqalError as ex:
                    return f"used-qubit analysis of statement {i} ({st[1]}) raised {ex}"
                g1s = set(g1.get("q", set()))
                if g1s != w or any(v for k, v in g1.items() if k != "q"):
                    return f"used-qubit analysis of the call {st[1]} gives {dict(g1)}, lexical scoping gives q:{sorted(w)}"
        if emu.gates_valid(want):
            numpy.random.seed(0)
            try:
                res = run_jaqal_circuit(fill_in_let(c, ov) if ov else c)
            except JaqalError as ex:
                return f"valid program rejected by the emulator: {ex}"
            segs, _ = emu.ref_subcircuits(want)
            w = numpy.abs(emu.state_of(segs[0], n)) ** 2
            if not numpy.allclose(numpy.asarray(res.subcircuits[0].simulated_probability_by_int), w, atol=1e-9):
                return f"emulation (overrides {ov}) differs from the lexically scoped meaning"
    return None


if __name__ == "__main__":
    sys.exit(common.main("C07", sys.modules[__name__]))
