#!/usr/bin/env python3
"""C06 bounded stand-in: every consumer of a qubit reference agrees with Python's own slicing."""
import itertools
import sys, os
sys.path.insert(0, os.path.dirname(os.path.dirname(os.path.abspath(__file__))))
from bounded import common
from bounded.common import parse_native, JaqalError
import numpy

RULE = ("programs `register q[n]` + alias chains (whole / single / start:stop:step, literal, defaulted or let-valued) of depth <= 3, "
        "one X gate on element i of the last alias, written directly / through a macro qubit parameter / through a macro index parameter; "
        "oracle: Python list slicing of range(n). non-trivial = chain has at least one level that is not the identity")
BOUND = "n <= 6, depth <= 3, start in 0..3, step in 1..3, every valid stop, every element"
EXHAUSTIVE_IN_THOROUGH = True


def levels(src_len):
    yield ("whole", None)
    for start in range(0, min(4, src_len)):
        for step in (1, 2, 3):
            for stop in range(start + 1, src_len + 1):
                yield ("slice", (start, stop, step))


def chains(n, depth):
    def rec(cur, d):
        yield []
        if d == 0:
            return
        for kind, par in levels(len(cur)):
            nxt = cur if kind == "whole" else cur[par[0]:par[1]:par[2]]
            if not nxt:
                continue
            for rest in rec(nxt, d - 1):
                yield [(kind, par)] + rest
    return rec(list(range(n)), depth)


def render(n, chain, i, style, letmode):
    lines = []
    lets = []
    regs = [f"register q[{n}]"]
    prev = "q"
    for k, (kind, par) in enumerate(chain):
        name = f"a{k}"
        if kind == "whole":
            regs.append(f"map {name} {prev}")
        else:
            start, stop, step = par
            parts = [str(start), str(stop), str(step)]
            if letmode and k == len(chain) - 1:
                lets.append(f"let s{k} {start}")
                lets.append(f"let t{k} {step}")
                parts[0], parts[2] = f"s{k}", f"t{k}"
            if step == 1 and not letmode and (k % 2 == 0):
                regs.append(f"map {name} {prev}[{parts[0]}:{parts[1]}]")
            else:
                regs.append(f"map {name} {prev}[{parts[0]}:{parts[1]}:{parts[2]}]")
        prev = name
    body = []
    if style == "direct":
        body = ["prepare_all", f"X {prev}[{i}]", "measure_all"]
    elif style == "macro_qubit":
        body = ["macro m x { X x }", "prepare_all", f"m {prev}[{i}]", "measure_all"]
    else:
        body = ["macro m k { X " + prev + "[k] }", "prepare_all", f"m {i}", "measure_all"]
    return "\n".join(lets + regs + body) + "\n"


def cases(tier, rng):
    all_cases = []
    maxn = 6 if tier == "thorough" else 5
    for n in range(1, maxn + 1):
        for chain in chains(n, 3 if tier == "thorough" else 2):
            cur = list(range(n))
            for kind, par in chain:
                cur = cur if kind == "whole" else cur[par[0]:par[1]:par[2]]
            nontriv = any(k == "slice" and p != (0, None, 1) for k, p in chain)
            for i in range(len(cur)):
                for style in ("direct", "macro_qubit", "macro_index"):
                    for letmode in (False, True):
                        if letmode and not any(k == "slice" for k, _ in chain[-1:]):
                            continue
                        all_cases.append((n, chain, i, cur[i], style, letmode, nontriv))
    if tier != "thorough":
        rng.shuffle(all_cases)
        all_cases = all_cases[:1500]
    for (n, chain, i, exp, style, letmode, nontriv) in all_cases:
        text = render(n, chain, i, style, letmode)
        yield text, {"text": text, "expected": exp, "n": n, "style": style}, nontriv


def find_gate(block):
    for s in block.statements:
        if hasattr(s, "gate_def") and s.name == "X":
            return s
        if hasattr(s, "statements"):
            g = find_gate(s if hasattr(s, "parallel") else s.statements)
            if g is not None:
                return g
    return None


def check(p):
    from jaqalpaq.core.algorithm import expand_macros, fill_in_let
    from jaqalpaq.core.algorithm.fill_in_map import fill_in_map
    from jaqalpaq.core.algorithm.used_qubit_visitor import get_used_qubit_indices
    from jaqalpaq.emulator import run_jaqal_circuit
    text, exp, n = p["text"], p["expected"], p["n"]
    try:
        c = parse_native(text)
    except JaqalError as ex:
        return f"valid program rejected: {ex}"
    ce = expand_macros(c)
    g = find_gate(ce.body)
    qarg = list(g.parameters.values())[0]
    reg, idx = qarg.resolve_qubit()
    if reg.name != "q" or idx != exp:
        return f"resolve_qubit gives {reg.name}[{idx}], expected q[{exp}]"
    used = get_used_qubit_indices(g)
    if {k: set(v) for k, v in used.items()} != {"q": {exp}}:
        return f"used-qubit analysis gives {dict(used)}, expected q:{{{exp}}}"
    used_c = get_used_qubit_indices(c.body.statements[1] if p["style"] != "direct" else g)
    if {k: set(v) for k, v in used_c.items()} != {"q": {exp}}:
        return f"used-qubit analysis through the macro call gives {dict(used_c)}, expected q:{{{exp}}}"
    cm = fill_in_map(fill_in_let(ce))
    gm = find_gate(cm.body)
    qa = list(gm.parameters.values())[0]
    if not (qa.alias_from.name == "q" and qa.alias_from.fundamental and qa.alias_index == exp):
        return f"alias fill-in rewrote the reference to {qa.name}, expected q[{exp}]"
    numpy.random.seed(0)
    res = run_jaqal_circuit(c)
    probs = res.subcircuits[0].simulated_probability_by_int
    want = 1 << exp
    if abs(probs[want] - 1.0) > 1e-9:
        got = int(numpy.argmax(probs))
        return f"emulator flipped state index {got} (bits), expected only qubit {exp} (index {want})"
    return None


if __name__ == "__main__":
    sys.exit(common.main("C06", sys.modules[__name__]))
