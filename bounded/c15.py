#!/usr/bin/env python3
"""C15 bounded stand-in: result views are normalised and mutually consistent (little endian)."""
import sys, os
sys.path.insert(0, os.path.dirname(os.path.dirname(os.path.abspath(__file__))))
import numpy
from bounded import common
from bounded.common import parse_native, JaqalError

RULE = ("for n = 1..5 qubits (interleaved in one process): programs preparing each basis state / superpositions, emulated and parsed from "
        "hardware output lists given as ints and as strings; checks per subcircuit: probabilities >= 0 and sum to 1 (also for gate matrices "
        "scaled by 1 +- eps within the tolerated error), by_str and by_int views list the 2^n outcomes once, in integer order, qubit 0 = least "
        "significant bit = leftmost character; every readout's as_str/as_int obey the same map and have n characters; string and integer "
        "outputs are interpreted identically (also in one list mixing both); relative frequencies are the counts of the recorded readouts, also "
        "after executing one emulator job repeatedly; non-trivial = n >= 2")
BOUND = "n <= 5, every basis state, 3 superposition programs per n, eps in {0, 1e-9, 5e-7, 1.5e-6}"
BUDGET_S = {"quick": 40, "thorough": 300}
EXHAUSTIVE_IN_THOROUGH = True


def le_str(r, n):
    return "".join("1" if (r >> j) & 1 else "0" for j in range(n))


def cases(tier, rng):
    out = []
    for rep in range(2):
        for n in ([3, 1, 4, 2, 5] if rep == 0 else [2, 5, 1, 3, 4]):
            states = list(range(2 ** n))
            if tier == "quick" and n >= 4:
                states = rng.sample(states, 6)
            for b in states:
                out.append({"n": n, "basis": b, "eps": 0.0})
            for eps in (0.0, 1e-9, 5e-7, 1.5e-6, -5e-7):
                out.append({"n": n, "basis": (2 ** n) - 1, "eps": eps})
                out.append({"n": n, "basis": None, "eps": eps})
    for c in out:
        yield repr(sorted(c.items())) + f"#{id(c) % 7}", c, c["n"] >= 2


def check(c):
    from jaqalpaq.emulator import run_jaqal_circuit
    from jaqalpaq.core.result import parse_jaqal_output_list
    from jaqalpaq.core.gatedef import GateDefinition
    from jaqalpaq.core.parameter import Parameter, ParamType
    n, basis, eps = c["n"], c["basis"], c["eps"]
    gates = common.native_gates()
    if eps:
        gates = dict(gates)
        gates["X"] = GateDefinition("X", [Parameter("q", ParamType.QUBIT)], ideal_unitary=lambda: numpy.sqrt(1 + eps) * common._X())
    body = []
    if basis is None:
        body = ["H q[0]"] + [f"CX q[0] q[{i}]" for i in range(1, n)] + ["X q[0]"]
    else:
        body = [f"X q[{j}]" for j in range(n) if (basis >> j) & 1]
    text = f"register q[{n}]\nprepare_all\n" + "\n".join(body) + "\nmeasure_all\nloop 3 {\nprepare_all\n" + "\n".join(body[:1]) + "\nmeasure_all\n}\n"
    from jaqalpaq.parser import parse_jaqal_string
    circ = parse_jaqal_string(text, inject_pulses=gates, autoload_pulses=False)
    numpy.random.seed(n)
    try:
        res = run_jaqal_circuit(circ)
    except (RuntimeError, ValueError) as ex:
        if abs(eps) * n > 1.2e-6:
            return None     # accumulated error beyond the documented cut-off: raising is the specified behaviour
        return f"emulation failed for a distribution within tolerance (eps={eps}): {type(ex).__name__}: {ex}"
    for k, sc in enumerate(res.subcircuits):
        p = numpy.asarray(sc.simulated_probability_by_int)
        if len(p) != 2 ** n:
            return f"subcircuit {k}: {len(p)} probabilities for {n} qubits"
        if (p < 0).any() or abs(p.sum() - 1.0) > 1e-12:
            return f"subcircuit {k}: probabilities not normalised: min {p.min()}, sum {p.sum()!r} (eps={eps})"
        bs = sc.simulated_probability_by_str
        keys = list(bs.keys())
        if keys != [le_str(r, n) for r in range(2 ** n)]:
            return f"subcircuit {k}: string view keys are not the 2^n outcomes in integer order, little endian: {keys[:4]}..."
        if any(bs[le_str(r, n)] != p[r] for r in range(2 ** n)):
            return f"subcircuit {k}: string and integer views disagree"
        rf = numpy.asarray(sc.relative_frequency_by_int)
        rs = sc.relative_frequency_by_str
        if list(rs.keys()) != keys or any(rs[le_str(r, n)] != rf[r] for r in range(2 ** n)):
            return f"subcircuit {k}: relative-frequency views disagree"
        cnt = numpy.zeros(2 ** n)
        for r in sc.readouts:
            cnt[r.as_int] += 1
        if not numpy.array_equal(cnt, rf):
            return f"subcircuit {k}: relative frequencies are not the counts of its readouts"
    for r in res.readouts:
        if r.as_str != le_str(r.as_int, n) or len(r.as_str) != n:
            return f"readout {r.index}: as_int {r.as_int} but as_str {r.as_str!r} (n={n})"
    if basis is not None and not eps:
        if res.readouts[0].as_int != basis or res.readouts[0].as_str != le_str(basis, n):
            return f"basis state {basis}: readout {res.readouts[0].as_int} / {res.readouts[0].as_str!r}"
    # the same consistency when one emulator job is executed more than once (history: whatever a second execution
    # does to the recorded readouts it must do to the frequency tables)
    if n <= 3 and not eps:
        from jaqalpaq.core.algorithm import expand_macros, fill_in_let, expand_subcircuits
        from jaqalpaq.emulator.unitary import UnitarySerializedEmulator
        job = UnitarySerializedEmulator()(expand_macros(fill_in_let(expand_subcircuits(circ))))
        for attempt in (1, 2, 3):
            exe = job.execute()
            for k, sc in enumerate(exe.subcircuits):
                cnt = numpy.zeros(2 ** n)
                for r in sc.readouts:
                    cnt[r.as_int] += 1
                if not numpy.array_equal(cnt, numpy.asarray(sc.relative_frequency_by_int)):
                    return (f"after executing the job {attempt} time(s), subcircuit {k} has {len(sc.readouts)} recorded readouts but a "
                            f"frequency table summing to {float(numpy.asarray(sc.relative_frequency_by_int).sum())}")
                rs2 = sc.relative_frequency_by_str        # read on every execution: the two views stay in step
                if any(rs2[le_str(v, n)] != sc.relative_frequency_by_int[v] for v in range(2 ** n)):
                    return f"after executing the job {attempt} time(s), the string view of subcircuit {k}'s frequencies lags behind the integer view"
            for r in exe.readouts:
                if not any(r is x for x in r.subcircuit.readouts):
                    return f"execution {attempt}: a reported readout is not among the readouts of its subcircuit"
    # hardware outputs for a program parsed WITHOUT gate definitions: all n register qubits are measured, whether a gate
    # touches them or not
    bare = parse_jaqal_string(f"register q[{n}]\nprepare_all\nfoo q[0]\nmeasure_all\n", autoload_pulses=False)
    top = 2 ** n - 1
    for outs in ([top], [le_str(top, n)]):
        try:
            rb = parse_jaqal_output_list(bare, list(outs))
        except JaqalError as ex:
            return f"hardware output {outs} for an {n}-qubit register is rejected: {ex}"
        r0 = rb.readouts[0]
        if r0.as_int != top or r0.as_str != "1" * n or len(rb.subcircuits[0].relative_frequency_by_int) != 2 ** n:
            return f"hardware output {outs} for an {n}-qubit register is read as {r0.as_int} / {r0.as_str!r} over {len(rb.subcircuits[0].relative_frequency_by_int)} outcomes"
    # hardware outputs: strings and ints interpreted identically
    ints = [(5 * i + (basis or 1)) % (2 ** n) for i in range(4)]
    strs = [le_str(v, n) for v in ints]
    a = parse_jaqal_output_list(circ, list(ints))
    b = parse_jaqal_output_list(circ, list(strs))
    va = [(r.as_int, r.as_str, r.subcircuit.index) for r in a.readouts]
    vb = [(r.as_int, r.as_str, r.subcircuit.index) for r in b.readouts]
    if va != vb or [x[0] for x in va] != ints or [x[1] for x in va] != strs:
        return f"hardware outputs as ints {ints} and as strings {strs} are interpreted differently: {va} vs {vb}"
    mixed = [v if i % 2 == 0 else s_ for i, (v, s_) in enumerate(zip(ints, strs))]
    for lst in (mixed, list(reversed(mixed))):
        try:
            m = parse_jaqal_output_list(circ, list(lst))
        except JaqalError:
            m = None
        if m is not None:
            exp = [x if isinstance(x, int) else int(x[::-1], 2) for x in lst]
            if [r.as_int for r in m.readouts] != exp:
                return f"an output list mixing ints and strings {lst} is read as {[r.as_int for r in m.readouts]}, expected {exp}"
    for sc_a, sc_b in zip(a.subcircuits, b.subcircuits):
        if not numpy.array_equal(sc_a.relative_frequency_by_int, sc_b.relative_frequency_by_int):
            return "relative frequencies differ between int and str outputs"
    return None


if __name__ == "__main__":
    sys.exit(common.main("C15", sys.modules[__name__]))
