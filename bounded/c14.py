#!/usr/bin/env python3
"""C14 bounded stand-in: no program is accepted with a reference that cannot be honoured."""
import itertools
import sys, os
sys.path.insert(0, os.path.dirname(os.path.dirname(os.path.abspath(__file__))))
import numpy
from bounded import common, ref, emu
from bounded.common import parse_native, parse, JaqalError, native_gates

RULE = ("systematic boundary matrix: indices / alias bounds in {-2,-1,0,size-1,size,size+1} given as literal, let, overriding value or macro "
        "argument (qubit, register+index), aliases of aliases, alias or index applied to a non-register (let, single-qubit alias), undefined / "
        "doubly defined identifiers of every kind pair (register, alias, let, macro), unknown gates with a native set in force, wrong argument "
        "count / kind for native gates and macros; oracle: Python's own range()/slicing says whether every reference is honourable; an invalid "
        "program must raise JaqalError at parse, let substitution, macro expansion or emulation and must never produce a result; a valid one "
        "must act on the qubit Python's slicing gives; non-trivial = the case is an invalid program")
BOUND = "register size 3..4, alias depth <= 2, one offending construct per program"
BUDGET_S = {"quick": 40, "thorough": 300}
EXHAUSTIVE_IN_THOROUGH = True


def idx_cases(n):
    for i in (-2, -1, 0, n - 1, n, n + 1):
        yield i


def cases(tier, rng):
    out = []
    n = 4
    body = lambda g: f"prepare_all\n{g}\nmeasure_all\n"
    # 1. index into register / alias: literal, let, override, macro argument
    for i in idx_cases(n):
        ok = 0 <= i < n
        out.append((f"register q[{n}]\n" + body(f"X q[{i}]"), {}, ok, i))
        out.append((f"let k {i}\nregister q[{n}]\n" + body("X q[k]"), {}, ok, i))
        out.append((f"let k 0\nregister q[{n}]\n" + body("X q[k]"), {"k": i}, ok, i))
        out.append((f"register q[{n}]\nmacro m a {{ X a }}\n" + body(f"m q[{i}]"), {}, ok, i))
        out.append((f"register q[{n}]\nmacro m r j {{ X r[j] }}\n" + body(f"m q {i}"), {}, ok, i))
        out.append((f"register q[{n}]\nmacro m j {{ X q[j] }}\n" + body(f"m {i}"), {}, ok, i))
    # 2. alias slices: start/stop/step; then index into the alias
    for start, stop, step in itertools.product((-1, 0, 1, 2), (1, 3, 4, 5), (1, 2, 0)):
        base = list(range(n))
        valid = step > 0 and 0 <= start and stop <= n
        sl = base[start:stop:step] if valid else []
        for i in (0, 1, len(sl) - 1, len(sl)):
            ok = valid and 0 <= i < len(sl)
            exp = sl[i] if ok else None
            txt = f"register q[{n}]\nmap a q[{start}:{stop}:{step}]\n" + body(f"X a[{i}]")
            out.append((txt, {}, ok, exp))
            txt = f"let s {start}\nlet t {stop}\nregister q[{n}]\nmap a q[s:t:{step}]\n" + body(f"X a[{i}]")
            out.append((txt, {}, ok, exp))
        # alias of alias
        if valid and len(sl) >= 2:
            for s2, e2 in ((0, len(sl)), (1, len(sl)), (0, len(sl) + 1)):
                ok2 = e2 <= len(sl)
                sl2 = sl[s2:e2] if ok2 else []
                for i in (0, len(sl2) - 1, len(sl2)):
                    ok = ok2 and 0 <= i < len(sl2)
                    out.append((f"register q[{n}]\nmap a q[{start}:{stop}:{step}]\nmap b a[{s2}:{e2}]\n" + body(f"X b[{i}]"), {}, ok, sl2[i] if ok else None))
    # 3. alias / index applied to a non-register; undefined and doubly defined identifiers
    bad = [
        f"let k 1\nregister q[{n}]\nmap a k[0]\n" + body("X q[0]"),
        f"let k 1\nregister q[{n}]\nmap a k\n" + body("X q[0]"),
        f"let k 1\nregister q[{n}]\n" + body("X k[0]"),
        f"register q[{n}]\nmap a q[1]\n" + body("X a[0]"),
        f"register q[{n}]\nmap a q[1]\nmap b a[0]\n" + body("X q[0]"),
        f"register q[{n}]\n" + body("X r[0]"),
        f"register q[{n}]\n" + body("X zz"),
        f"register q[{n}]\nmap a r\n" + body("X q[0]"),
        f"register q[{n}]\nmap a r[0:2]\n" + body("X q[0]"),
        f"register q[k]\n" + body("X q[0]"),
        f"register q[{n}]\nmap a q[0:k]\n" + body("X q[0]"),
        f"register q[{n}]\n" + body("loop k { X q[0] }"),
        f"register q[{n}]\n" + body("Foo q[0]"),
        f"register q[{n}]\n" + body("X q[0] q[1]"),
        f"register q[{n}]\n" + body("X"),
        f"register q[{n}]\n" + body("CX q[0]"),
        f"register q[{n}]\n" + body("Rx q[0]"),
        f"register q[{n}]\n" + body("Rx 0.5 q[0]"),
        f"register q[{n}]\n" + body("X 1"),
        f"register q[{n}]\n" + body("X q"),
        # the same reference text in a scope where its name is a macro parameter and in one where it is the register:
        # the out-of-range use must be refused whichever comes first (a shared memoised statement would hide it)
        f"register q[{n}]\nmacro m q {{ X q[{n + 1}] }}\n" + body(f"X q[{n + 1}]"),
        f"register q[{n}]\nmap z q[0:1]\nmacro m q {{ X q[1] }}\n" + body("X q[1]\nm z"),
        f"register q[{n}]\nmap z q[0:1]\n" + body("X q[1]") + "macro m q { X q[1] }\n" + body("m z"),
        f"register q[{n}]\nmap z q[0:1]\nmacro m q {{ X q[1] }}\n" + body("m z") + body("X q[1]"),
        f"register q[{n}]\nmacro m a {{ X a }}\n" + body("m"),
        f"register q[{n}]\nmacro m a {{ X a }}\n" + body("m q[0] q[1]"),
        f"register q[{n}]\nmacro m a {{ X a }}\nmacro m b {{ X b }}\n" + body("m q[0]"),
        f"register q[{n}]\nmacro X a {{ H a }}\n" + body("X q[0]"),
        f"register q[{n}]\nmacro m a {{ n a }}\nmacro n a {{ X a }}\n" + body("m q[0]"),
    ]
    kinds = {"reg": "register {name}[2]", "alias": "map {name} q", "aliasq": "map {name} q[0]", "let": "let {name} 1", "macro": "macro {name} a {{ X a }}"}
    for k1, k2 in itertools.product(kinds, kinds):
        if "macro" in (k1, k2) and k1 != k2:
            continue    # macros and data names live in different namespaces in this implementation; not part of the matrix
        lines = [f"register q[{n}]"]
        defs = [kinds[k1].format(name="d"), kinds[k2].format(name="d")]
        hdr = [d for d in defs if not d.startswith("macro")]
        lets = [d for d in hdr if d.startswith("let")]
        rest = [d for d in hdr if not d.startswith("let")]
        mac = [d for d in defs if d.startswith("macro")]
        bad.append("\n".join(lets + lines + rest + mac) + "\n" + body("X q[0]"))
    for b in bad:
        out.append((b, {}, False, None))
    # 4. overriding values that are floats, in every integer position a let can stand in: an integral float denotes
    #    that integer or is refused with JaqalError; a non-integral one is never honourable (no truncation, no crash)
    fl = []
    for v in (2.0, 3.0, 2.7, 3.5, -0.3, 0.0):
        integral = float(v).is_integer()
        iv = int(v)
        fl.append((f"let k 1\nregister q[{n}]\n" + body("X q[k]"), {"k": v}, integral and 0 <= iv < n, iv, integral))
        fl.append((f"let k 1\nregister q[{n}]\nmap a q[k]\n" + body("X a"), {"k": v}, integral and 0 <= iv < n, iv, integral))
        fl.append((f"let k 1\nregister q[{n}]\nmap a q[1:4]\n" + body("X a[k]"), {"k": v}, integral and 0 <= iv < 3, 1 + iv, integral))
        fl.append((f"let k 1\nregister q[{n}]\nmap a q[k:4]\n" + body("X a[0]"), {"k": v}, integral and 0 <= iv < n, iv, integral))
        fl.append((f"let k 3\nregister q[k]\n" + body("X q[0]"), {"k": v}, integral and iv >= 1, 0, integral))
        fl.append((f"let k 1\nregister q[{n}]\nmacro m r j {{ X r[j] }}\n" + body("m q k"), {"k": v}, integral and 0 <= iv < n, iv, integral))
    for text, ov, ok, exp, integral in fl:
        out.append((text, ov, ok, exp if ok else None, "may-reject" if integral else None))
    directed = [o for o in out if len(o) == 5]
    out = [o for o in out if len(o) == 4]
    if tier != "thorough":
        rng.shuffle(out)
        out = out[:900]
    for text, ov, ok, exp, *flag in out + directed:
        yield text + "#ov=" + repr(sorted(ov.items())), {"text": text, "ov": ov, "ok": ok, "exp": exp, "may_reject": bool(flag and flag[0])}, not ok


def check(pl):
    from jaqalpaq.core.algorithm import fill_in_let, expand_macros
    from jaqalpaq.emulator import run_jaqal_circuit
    text, ov, ok, exp = pl["text"], pl["ov"], pl["ok"], pl["exp"]
    # two routes: the circuit as parsed, and with its macros expanded first (both are how programs reach a backend)
    for route in ("direct", "expanded"):
        r = check_route(pl, route)
        if r is not None:
            return r if route == "direct" else f"[after expand_macros] {r}"
    return None


def check_route(pl, route):
    from jaqalpaq.core.algorithm import fill_in_let, expand_macros
    from jaqalpaq.emulator import run_jaqal_circuit
    text, ov, ok, exp = pl["text"], pl["ov"], pl["ok"], pl["exp"]
    numpy.random.seed(0)
    stage = "parse"
    try:
        c = parse_native(text)
        stage = "let substitution"
        if ov:
            c = fill_in_let(c, ov)
        if route == "expanded":
            stage = "macro expansion"
            c = expand_macros(c)
        stage = "emulation"
        res = run_jaqal_circuit(c)
    except JaqalError as ex:
        if ok and not pl.get("may_reject"):
            return f"valid program rejected at {stage}: {ex}"
        return None
    if not ok:
        probs = [numpy.round(numpy.asarray(s.simulated_probability_by_int), 6).tolist() for s in res.subcircuits]
        return f"program with a reference that cannot be honoured was accepted and ran; probabilities {probs}"
    if exp is not None:
        p = numpy.asarray(res.subcircuits[0].simulated_probability_by_int)
        if abs(p[1 << exp] - 1) > 1e-9:
            return f"valid program ran on a different qubit: expected q[{exp}], state index {int(numpy.argmax(p))}"
    return None


if __name__ == "__main__":
    sys.exit(common.main("C14", sys.modules[__name__]))
