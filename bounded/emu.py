"""Reference execution model shared by the emulator-related stand-ins (C03, C08, C09, C12, C13, C15)."""
import numpy
from bounded import ref, common

MATS = {"X": lambda: common._X(), "H": lambda: common._H(), "Rx": lambda th: common._Rx(th), "CX": lambda: common._CX(), "CCX": lambda: common._CCX()}


class Rejected(Exception):
    """the reference says the program must be rejected with JaqalError"""


def has_bracket(t):
    if t[0] == "gate":
        return t[1] in ("prepare_all", "measure_all")
    if t[0] == "sub":
        return True
    return any(has_bracket(c) for c in (t[1] if t[0] in ("seq", "par") else t[2]))


def any_gate(t):
    if t[0] == "gate":
        return True
    return any(any_gate(c) for c in (t[1] if t[0] in ("seq", "par") else t[2]))


def zero_loop_with_bracket(t):
    """a loop whose count is 0 contains prepare/measure/subcircuit: results for it are not defined by C12"""
    if t[0] == "gate":
        return False
    if t[0] == "loop" and int(t[1]) == 0 and has_bracket(t):
        return True
    return any(zero_loop_with_bracket(c) for c in (t[1] if t[0] in ("seq", "par") else t[2]))


def unroll(t):
    if t[0] == "gate":
        yield t
    elif t[0] in ("seq", "par"):
        for c in t[1]:
            yield from unroll(c)
    elif t[0] == "loop":
        for _ in range(int(t[1])):
            for c in t[2]:
                yield from unroll(c)
    else:
        raise Rejected("subcircuit nested in a segment")


def ref_subcircuits(tree):
    """(segments in flat/textual order, visit sequence with loops unrolled).
    Implements the property C12's acceptance rule on the reference meaning tree."""
    segs = []
    state = {"cur": None}
    order = []

    def walk(t, reps_stack):
        k = t[0]
        if k == "gate":
            if t[1] == "prepare_all":
                state["cur"] = []
            elif t[1] == "measure_all":
                if state["cur"] is None:
                    raise Rejected("measure_all without prepare_all")
                segs.append(state["cur"])
                state["cur"] = None
                return [len(segs) - 1]
            else:
                if state["cur"] is None:
                    raise Rejected("gate outside prepare/measure")
                state["cur"].append(t)
            return []
        if k in ("seq", "par"):
            out = []
            for c in t[1]:
                out += walk(c, reps_stack)
            return out
        if k == "sub":
            # by definition  prepare_all ; body ; measure_all  - the body is read by the same rules (it may itself contain
            # a prepare_all, which restarts, or a measure_all, after which the block's own measure_all is ill-bracketed)
            state["cur"] = []
            out = []
            for c in t[2]:
                out += walk(c, reps_stack)
            if state["cur"] is None:
                raise Rejected("measure_all without prepare_all")
            segs.append(state["cur"])
            state["cur"] = None
            return out + [len(segs) - 1]
        if k == "loop":
            n = int(t[1])
            if not has_bracket(t):
                if state["cur"] is None:
                    # acceptance reads the program in flat order, ignoring loop counts
                    if any_gate(t):
                        raise Rejected("gate outside prepare/measure")
                    return []
                for _ in range(n):
                    for c in t[2]:
                        state["cur"] += list(unroll(c))
                return []
            opened_before = state["cur"] is not None
            count0 = len(segs)
            inner = []
            for c in t[2]:
                inner += walk(c, reps_stack)
            if opened_before and n > 1 and len(segs) != count0:
                raise Rejected("measure_all closing a subcircuit opened before a repeating loop")
            return inner * n
        raise ValueError(k)

    order = walk(tree, [])
    return segs, order


def state_of(gates, n):
    vec = numpy.zeros(2 ** n, dtype=complex)
    vec[0] = 1
    for g in gates:
        name = g[1]
        if name.startswith("I_"):
            continue
        qs = [a[1] for a in g[2] if a[0] == "qubit"]
        nums = [a[1] for a in g[2] if a[0] == "numv"]
        mat = MATS[name](*nums)
        vec = common.dense_apply(vec, n, mat, qs)
    return vec


def gates_valid(t):
    """every native gate application has pairwise distinct qubit arguments"""
    if t[0] == "gate":
        qs = [a[1] for a in t[2] if a[0] == "qubit"]
        return len(qs) == len(set(qs))
    return all(gates_valid(c) for c in (t[1] if t[0] in ("seq", "par") else t[2]))
