#!/usr/bin/env python3
"""C05 bounded stand-in: fill_in_let (with overrides) = reference meaning in the chosen environment; no Constant left."""
import sys, os
sys.path.insert(0, os.path.dirname(os.path.dirname(os.path.abspath(__file__))))
from bounded import common, ref
from bounded.common import parse_native, JaqalError

RULE = ("random small programs (bounded/ref.py generator: lets used as gate arguments, qubit indices, register size, alias bounds, loop and "
        "subcircuit counts; macros whose parameters may shadow nothing or be used as index) x override dictionaries over subsets of the lets; "
        "oracle: reference meaning evaluated with overridden lets vs meaning of fill_in_let(parse(text), overrides) evaluated with NO let "
        "environment; non-trivial = program mentions a let in body or header bounds")
BOUND = "n <= 4, depth <= 3, <= 3 statements per block, overrides in {0,1,2,n,1.5} per let, <= 2 lets overridden"
BUDGET_S = {"quick": 40, "thorough": 400}


def mentions_let(text):
    return any(k in text.split("register")[1] for k in ("k0", "k1", "ang", "nn"))


def cases(tier, rng):
    count = 400 if tier == "quick" else 10000
    for i in range(count):
        n = rng.choice([2, 3, 4])
        g = ref.Gen(rng, n=n, use_sub=(i % 2 == 0), bracket=(i % 2 == 0))
        p = g.program()
        text = ref.to_text(p)
        names = [x for x, _ in p["lets"]]
        ovs = [{}]
        for _ in range(2):
            ov = {}
            for nm in rng.sample(names, min(len(names), rng.choice([1, 2]))):
                if nm == "ang":
                    ov[nm] = rng.choice([0.75, 2.0, 1])
                elif nm == "nn":
                    ov[nm] = rng.choice([n, n + 1])
                else:
                    ov[nm] = rng.choice([0, 1, 2])
            ovs.append(ov)
        for ov in ovs:
            yield text + "#ov=" + repr(sorted(ov.items())), {"prog": p, "text": text, "ov": ov}, mentions_let(text)


def constants_left(c):
    from jaqalpaq.core import Constant, GateStatement, BlockStatement, LoopStatement, NamedQubit, Register
    out = []

    def val(v, where):
        if isinstance(v, Constant):
            out.append(where)
        elif isinstance(v, NamedQubit):
            val(v.alias_index, where + ".index")
            reg(v.alias_from, where + ".from")
        elif isinstance(v, Register):
            reg(v, where)

    def reg(r, where):
        if isinstance(r, Register):
            if r.fundamental:
                val(r._size, where + ".size")
            else:
                reg(r.alias_from, where + ".from")
                if r.alias_slice is not None:
                    for f in ("start", "stop", "step"):
                        val(getattr(r.alias_slice, f), where + "." + f)

    def st(s, where):
        if isinstance(s, GateStatement):
            for k, v in s.parameters.items():
                val(v, f"{where}/{s.name}.{k}")
        elif isinstance(s, LoopStatement):
            val(s.iterations, where + "/loop.count")
            st(s.statements, where + "/loop")
        elif isinstance(s, BlockStatement):
            val(s.iterations, where + "/block.count")
            for c in s.statements:
                st(c, where + "/block")

    st(c.body, "body")
    for m in c.macros.values():
        st(m.body, f"macro {m.name}")
    for r in c.registers.values():
        if isinstance(r, Register):
            reg(r, f"register {r.name}")
        else:
            val(r, f"map {r.name}")
    return out


def check(pl):
    from jaqalpaq.core.algorithm import fill_in_let
    p, text, ov = pl["prog"], pl["text"], pl["ov"]
    try:
        c = parse_native(text)
    except JaqalError as ex:
        return f"generated program rejected by the parser: {ex}"
    try:
        ref.static_valid(p, ov)
        want = ref.sem(p, ov)
    except ref.RefError:
        # the overridden environment makes the program invalid: it must be rejected with JaqalError, or
        # at least not silently accepted with a different meaning (C14); only crashes are reported here
        try:
            fill_in_let(c, ov)
        except JaqalError:
            return None
        except Exception as ex:
            return f"invalid overridden program: {type(ex).__name__} escaped: {ex}"
        return None
    try:
        f = fill_in_let(c, ov)
    except JaqalError as ex:
        return f"valid program rejected by fill_in_let: {ex}"
    left = constants_left(f)
    if left:
        return f"constants left after let substitution at {left[:4]}"
    try:
        got = ref.circuit_sem(f)          # no let environment at all
    except ref.RefError as ex:
        return f"result of fill_in_let has no meaning without lets: {ex}"
    if got != want:
        return f"meaning changed by fill_in_let (overrides {ov}):\n want {want}\n got  {got}"
    if set(f.macros) != set(c.macros) or f.native_gates != c.native_gates or f.usepulses != c.usepulses:
        return "macros / native gates / pulse imports not preserved"
    return None


if __name__ == "__main__":
    sys.exit(common.main("C05", sys.modules[__name__]))
