#!/usr/bin/env python3
"""C10 bounded stand-in: passes commute, are idempotent, and keep circuits legal."""
import itertools
import sys, os
sys.path.insert(0, os.path.dirname(os.path.dirname(os.path.abspath(__file__))))
from bounded import common, ref
from bounded.common import parse_native, JaqalError

RULE = ("random parser-produced circuits (lets, aliases incl. alias-of-alias, macros calling macros - also from loops and parallel blocks -, "
        "subcircuit blocks also inside macros and loops, nested blocks) x every applicable sequence of <= 4 of the passes {fill_in_let, expand_macros, "
        "expand_subcircuits, fill_in_map (only after lets and macros are gone)}; checks: every order gives the reference meaning (subcircuits "
        "spelled out when that pass ran), pass(pass(c)) == pass(c), the result of every pass generates text the parser accepts with the same "
        "meaning, and parse_jaqal_string(expand_macro / expand_let / expand_let_map [+override_dict]) equals the passes applied to the plain "
        "parse; non-trivial = program has a macro call or subcircuit or let")
BOUND = "n <= 4, depth <= 3, pass sequences (without repetition, then one repetition of each pass that ran) of length <= 4"
BUDGET_S = {"quick": 45, "thorough": 400}


def cases(tier, rng):
    count = 250 if tier == "quick" else 6000
    for i in range(count):
        n = rng.choice([2, 3, 4])
        g = ref.Gen(rng, n=n, use_sub=(i % 2 == 0), bracket=(i % 2 == 0), max_depth=3)
        p = g.program()
        p.pop("usepulses", None)
        if i % 3 == 0 and p["macros"]:
            # a subcircuit inside a macro body, called from the main body
            p["macros"].append(("ms", ["x"], ("seq", [("sub", None, [("gate", "X", [("id", "x")])])])))
            p["body"].append(("gate", "ms", [("q", "q", 0)]))
        if i % 3 == 1 and p["lets"]:
            # a macro parameter that shadows a let (the override must not reach it), used as a qubit index and a loop count
            p["macros"].append(("msh", ["rr", "k1"], ("seq", [("gate", "H", [("q", "rr", "k1")]), ("loop", "k1", [("gate", "X", [("q", "rr", 0)])])])))
            p["body"].append(("gate", "msh", [("id", "q"), ("num", rng.choice([0, 1]))]))
        force_ov = None
        if i % 4 == 3 and any(l[0] == "k0" for l in p["lets"]):
            # an alias whose bound is a let, indexed with a LITERAL, and an override that moves the bound: the literal
            # index must follow the rebuilt alias in every order of the passes
            k0 = dict(p["lets"])["k0"]
            p["maps"].append(("ad", "q", ("slice", "k0", p["n"], None)))
            p["maps"].append(("ae", "ad", ("slice", 0, 1, None)))
            p["body"].append(("gate", "X", [("q", "ad", 0)]))
            p["body"].append(("gate", "H", [("q", "ae", 0)]))
            force_ov = {"k0": 1 - k0}
        text = ref.to_text(p)
        try:
            ref.static_valid(p)
            ref.sem(p)
        except ref.RefError:
            continue
        ov = None
        if i % 2 == 1 and any(l[0] == "k1" for l in p["lets"]):
            # an override may change a let that bounds an alias slice, sizes a loop or indexes a qubit
            ov = rng.choice([{"k1": rng.choice([0, 1, 2])}, {"k0": rng.choice([0, 1])}, {"k0": rng.choice([0, 1]), "k1": rng.choice([1, 2])}])
            try:
                ref.static_valid(p, overrides=ov)
                ref.sem(p, overrides=ov)
            except ref.RefError:
                ov = None
        if force_ov is not None:
            try:
                ref.static_valid(p, overrides=force_ov)
                ref.sem(p, overrides=force_ov)
                ov = force_ov
            except ref.RefError:
                pass
        yield text + repr(ov), {"prog": p, "text": text, "ov": ov}, ("macro" in text or "subcircuit" in text)


def spelled(t):
    """Meaning with every remaining subcircuit block spelled out as prepare_all; body; measure_all."""
    k = t[0]
    if k == "gate":
        return t
    if k in ("seq", "par"):
        return (k, [spelled(c) for c in t[1]])
    if k == "loop":
        return ("loop", t[1], [spelled(c) for c in t[2]])
    if k == "sub":
        return ("seq", [("gate", "prepare_all", ())] + [spelled(c) for c in t[2]] + [("gate", "measure_all", ())])
    raise ValueError(k)


def sequences():
    names = ["let", "mac", "sub", "map"]
    for L in (1, 2, 3, 4):
        for seq in itertools.permutations(names, L):
            if "map" in seq:
                i = seq.index("map")
                if not ("let" in seq[:i] and "mac" in seq[:i]):
                    continue        # fill_in_map is applicable once lets are numbers and alias arguments of macros are gone
            yield seq


def check(pl):
    from jaqalpaq.core.algorithm import fill_in_let, expand_macros, expand_subcircuits
    from jaqalpaq.core.algorithm.fill_in_map import fill_in_map
    from jaqalpaq.generator import generate_jaqal_program
    from jaqalpaq.parser import parse_jaqal_string
    p, text, ov = pl["prog"], pl["text"], pl.get("ov")
    c = parse_native(text)
    passes = {"let": lambda x: fill_in_let(x, override_dict=ov), "mac": lambda x: expand_macros(x),
              "sub": lambda x: expand_subcircuits(x), "map": lambda x: fill_in_map(x)}
    want_of = {}
    for seq in sequences():
        cur = c
        try:
            for nm in seq:
                cur = passes[nm](cur)
        except JaqalError as ex:
            return f"pass sequence {seq} rejected a valid circuit: {ex}"
        key = ("let" in seq, "sub" in seq)
        if key not in want_of:
            want_of[key] = ref.sem(p, overrides=ov if key[0] else None, expand_sub=key[1])
        want = want_of[key]
        try:
            got = ref.circuit_sem(cur)
        except ref.RefError as ex:
            return f"after {seq} the circuit has no meaning: {ex}"
        if got != want:
            return f"pass sequence {seq} (override {ov}) changed the meaning\n want {want}\n got  {got}"
        if "sub" in seq and ref.normalise(spelled(got)) != got:
            return f"after {seq} a subcircuit block is left"
        # idempotence: the pass just applied, applied again, gives the same circuit; any earlier pass applied again
        # keeps the meaning
        for nm in set(seq):
            try:
                again = passes[nm](cur)
            except JaqalError as ex:
                return f"applying {nm} again after {seq} raised {ex}"
            if nm == seq[-1] and not (nm == "let" and ov):
                if not (again == cur):
                    return f"{nm} is not idempotent after {seq[:-1]}"
            elif ref.circuit_sem(again) != got:
                return f"{nm} again after {seq} changed the meaning"
        # legality: generated text is accepted and means the same
        try:
            gtxt = generate_jaqal_program(cur)
            back = parse_native(gtxt)
        except JaqalError as ex:
            return f"the result of {seq} is not a legal Jaqal circuit: generated text rejected: {ex}"
        try:
            if ref.circuit_sem(back) != got:
                return f"the re-parsed text of the result of {seq} has a different meaning"
        except ref.RefError as ex:
            return f"re-parsed result of {seq} has no meaning: {ex}"
    # parser flags == passes on the plain parse
    gates = common.native_gates()
    flagsets = [dict(expand_macro=True), dict(expand_let=True), dict(expand_let=True, expand_macro=True), dict(expand_let_map=True, expand_macro=True)]
    for fl in flagsets:
        try:
            a = parse_jaqal_string(text, inject_pulses=gates, autoload_pulses=False, override_dict=ov if ("expand_let" in fl or "expand_let_map" in fl) else None, **fl)
        except JaqalError as ex:
            a = ("error",)
        try:
            b = c
            if fl.get("expand_macro"):
                b = expand_macros(b, preserve_definitions=True)
            if fl.get("expand_let_map"):
                b = fill_in_map(fill_in_let(b, override_dict=ov))
            elif fl.get("expand_let"):
                b = fill_in_let(b, override_dict=ov)
        except JaqalError:
            b = ("error",)
        if not (a == b):
            return f"parser flags {fl} (override {ov}) give a different circuit than the passes on the plain parse"
    return None


if __name__ == "__main__":
    sys.exit(common.main("C10", sys.modules[__name__]))
