#!/usr/bin/env python3
"""C03 bounded stand-in: emulator state vectors vs a dense reference (product of gate unitaries)."""
import sys, os
sys.path.insert(0, os.path.dirname(os.path.dirname(os.path.abspath(__file__))))
import numpy
from bounded import common, ref, emu
from bounded.common import parse_native, JaqalError

RULE = ("random valid bracketed programs (prepare/measure pairs or subcircuit blocks, possibly in loops; lets with overrides, aliases, macros, "
        "nested blocks and loops inside) over the native set {X, H, Rx(theta), asymmetric CX, CCX, idle gates}; oracle: numpy dense "
        "reference applying each executed gate's matrix on its resolved qubits (bit j of the matrix index <-> j-th qubit argument, "
        "bit i of the state index <-> register qubit i); non-trivial = some segment has a multi-qubit or parametrised gate")
BOUND = "n <= 4 qubits, depth <= 3, <= 3 statements per block, loop counts 0..3"
BUDGET_S = {"quick": 40, "thorough": 400}


def cases(tier, rng):
    count = 4000 if tier == "quick" else 60000
    for i in range(count):
        n = rng.choice([2, 3, 4])
        g = ref.Gen(rng, n=n, use_sub=True, bracket=True, gates=("X", "H", "Rx", "CX", "CX", "CCX", "I_X", "I_CX"))
        p = g.program()
        ov = {}
        if i % 4 == 0 and p["lets"]:
            ov = {"ang": rng.choice([0.75, 2.5])}
            if i % 8 == 0:
                ov["k1"] = rng.choice([0, 1, 3])
        if i % 3 == 0 and p["lets"]:
            ov["k0"] = rng.choice([0, 1])
        text = ref.to_text(p)
        try:
            ref.static_valid(p, ov)
            tree = ref.sem(p, ov)
            n2 = int(ref.num(p["n"], ref.lets_env(p, ov), {}))
            if not emu.gates_valid(tree) or not ref.par_disjoint(tree, n2):
                continue
            emu.ref_subcircuits(tree)
        except (ref.RefError, emu.Rejected):
            continue
        nt = any(x in text for x in ("CX", "CCX", "Rx"))
        yield text + "#ov=" + repr(sorted(ov.items())), {"prog": p, "text": text, "ov": ov}, nt


def check(pl):
    from jaqalpaq.emulator import run_jaqal_circuit
    p, text, ov = pl["prog"], pl["text"], pl["ov"]
    try:
        ref.static_valid(p, ov)
        tree = ref.sem(p, ov)
        L = ref.lets_env(p, ov)
        n = int(ref.num(p["n"], L, {}))
        if not emu.gates_valid(tree) or not ref.par_disjoint(tree, n):
            return None
        segs, order = emu.ref_subcircuits(tree)
    except (ref.RefError, emu.Rejected):
        return None
    numpy.random.seed(1)
    try:
        c = parse_native(text, override_dict=None)
        from jaqalpaq.core.algorithm import fill_in_let
        res = run_jaqal_circuit(fill_in_let(c, ov) if ov else c)
    except JaqalError as ex:
        return f"valid program rejected: {ex}"
    if len(res.subcircuits) != len(segs):
        return f"{len(res.subcircuits)} subcircuits reported, reference has {len(segs)}"
    for k, (sc, gates) in enumerate(zip(res.subcircuits, segs)):
        want = emu.state_of(gates, n)
        got = numpy.asarray(sc.state_vector)
        if got.shape != want.shape or not numpy.allclose(got, want, atol=1e-9):
            return f"subcircuit {k}: state vector differs from the ordered product of unitaries\n want {numpy.round(want, 4).tolist()}\n got  {numpy.round(got, 4).tolist()}"
        pw = numpy.abs(want) ** 2
        if not numpy.allclose(numpy.asarray(sc.simulated_probability_by_int), pw, atol=1e-9):
            return f"subcircuit {k}: probabilities differ from |state|^2"
    return None


if __name__ == "__main__":
    sys.exit(common.main("C03", sys.modules[__name__]))
