#!/usr/bin/env python3
"""C01 bounded stand-in: generated text parses back to the same circuit; second generation is byte-identical."""
import sys, os
sys.path.insert(0, os.path.dirname(os.path.dirname(os.path.abspath(__file__))))
from bounded import common, ref
from bounded.common import parse_native, parse, JaqalError

RULE = ("(a) random programs (bounded/ref.py generator: lets, aliases with literal/let/defaulted bounds, macros incl. parameter-indexed qubits, "
        "loops, nested blocks, subcircuits with literal/let/zero counts, pulse imports), parsed, generated, re-parsed, re-generated; "
        "(b) a literal grid: floats 10^k and 1.5*10^k for k in -30..30 (both signs), boundary ints, as let values and gate arguments; also "
        "checks that str(float) on the grid has the shape the data lemma assumes; checks: text accepted, circuits equal, same reference meaning, "
        "second generation byte-identical; non-trivial = program has a macro, alias, let or subcircuit / literal is in exponent form")
BOUND = "n <= 4, depth <= 3; literal grid |k| <= 30"
BUDGET_S = {"quick": 40, "thorough": 400}


def cases(tier, rng):
    count = 500 if tier == "quick" else 10000
    for i in range(count):
        n = rng.choice([2, 3, 4])
        g = ref.Gen(rng, n=n, use_sub=(i % 2 == 0), bracket=(i % 2 == 0), max_depth=3)
        p = g.program()
        if i % 5 == 0:
            p["body"].append(("sub", 0, [("gate", "X", [("q", "q", 0)])]))
        text = ref.to_text(p)
        yield text, {"kind": "prog", "text": text}, True
    import re
    ks = range(-30, 31) if tier == "thorough" else range(-30, 31, 3)
    for k in ks:
        for m in (1.0, 1.5, -1.0, -2.25):
            v = m * 10.0 ** k
            yield f"float:{v!r}", {"kind": "lit", "value": v}, "e" in repr(v)
    for v in (0, 1, -1, 2 ** 31, -2 ** 31, 2 ** 63, 10 ** 20, 0.0, -0.0, 0.1, 1 / 3, 123456789.123456789, 5e-324, 1.7976931348623157e308):
        yield f"lit:{v!r}", {"kind": "lit", "value": v}, True


def check(pl):
    import re
    from jaqalpaq.generator import generate_jaqal_program
    if pl["kind"] == "lit":
        v = pl["value"]
        if isinstance(v, float) and not re.fullmatch(r"-?(\d+\.\d+|\d(\.\d+)?e[+-]\d\d+)", repr(v)):
            return f"repr({v!r}) does not have the shape assumed by the data lemma"
        text = f"let c {v!r}\nregister q[2]\nG q[0] {v!r}\nloop 2 {{\n\tG q[1] c\n}}\n"
        parser = parse
    else:
        text = pl["text"]
        parser = parse_native
    try:
        c = parser(text)
    except JaqalError as ex:
        return None if pl["kind"] == "prog" else f"literal program rejected: {ex}"
    g1 = generate_jaqal_program(c)
    try:
        c2 = parser(g1)
    except JaqalError as ex:
        return f"generated text is rejected by the parser: {ex}\n{g1}"
    if c2 != c or c != c2:
        return f"re-parsed circuit differs from the original\n--- generated\n{g1}"
    g2 = generate_jaqal_program(c2)
    if g2 != g1:
        return f"second generation is not byte-identical\n--- first\n{g1}\n--- second\n{g2}"
    if pl["kind"] == "prog":
        try:
            m1, m2 = ref.circuit_sem(c), ref.circuit_sem(c2)
        except ref.RefError:
            return None
        if m1 != m2:
            return "re-parsed circuit has a different meaning"
        if [(k, v.value) for k, v in c.constants.items()] != [(k, v.value) for k, v in c2.constants.items()]:
            return "let values changed"
    else:
        if list(c2.constants.values())[0].value != v or repr(list(c2.body.statements[0].parameters.values())[1]) != repr(v if not (isinstance(v, float) and v == int(v) and False) else v):
            got = list(c2.body.statements[0].parameters.values())[1]
            if got != v or (isinstance(v, float) and str(got) != str(v) and not float(got) == v):
                return f"literal {v!r} came back as {got!r}"
    return None


if __name__ == "__main__":
    sys.exit(common.main("C01", sys.modules[__name__]))
