#!/usr/bin/env python3
"""C04 bounded stand-in: expand_macros preserves the reference meaning, leaves no macro call, keeps header data."""
import sys, os
sys.path.insert(0, os.path.dirname(os.path.dirname(os.path.abspath(__file__))))
from bounded import common, ref
from bounded.common import parse_native, JaqalError

RULE = ("random small programs (seeded) over register q[n], lets, aliases, <=2 macros (qubit / qubit+number / register+index parameters, "
        "later macros may call earlier ones, zero-parameter macros included; nested blocks, loops, subcircuit blocks), oracle: independent call-by-value reference "
        "semantics (bounded/ref.py) compared with the meaning of expand_macros(parse(text)); non-trivial = program contains a macro call")
BOUND = "n <= 4, nesting depth <= 3, <= 3 statements per block, <= 2 macros, <= 2 aliases"
BUDGET_S = {"quick": 40, "thorough": 400}


def has_macro_call(p):
    names = {m[0] for m in p["macros"]}

    def walk(s):
        if s[0] == "gate":
            return s[1] in names
        kids = s[1] if s[0] in ("seq", "par") else s[2]
        return any(walk(c) for c in kids)
    return any(walk(s) for s in p["body"])


def cases(tier, rng):
    count = 600 if tier == "quick" else 20000
    for i in range(count):
        n = rng.choice([2, 3, 4])
        g = ref.Gen(rng, n=n, use_sub=(i % 3 == 0), bracket=(i % 3 == 0))
        p = g.program()
        if i % 4 == 1:
            # a subcircuit block inside a macro that is itself called from a macro (the annotation and its count must
            # survive both levels of substitution), with a count given by a parameter of the outer macro
            p["macros"].append(("msb", ["x", "c"], ("seq", [("sub", "c", [("gate", "X", [("id", "x")])]), ("gate", "H", [("id", "x")])])))
            p["macros"].append(("mso", ["y"], ("seq", [("gate", "msb", [("id", "y"), ("num", rng.choice([0, 2, 3]))]), ("gate", "X", [("id", "y")])])))
            p["body"].append(("gate", "mso", [("q", "q", 0)]))
        if i % 5 == 2:
            # macros with an empty body, and blocks that are empty once those calls are expanded: a subcircuit block (with
            # its count), a loop and a parallel block must survive expansion even when nothing is left inside
            p["macros"].append(("mnil", [], ("seq", [])))
            p["macros"].append(("mnil2", ["x"], ("seq", [("gate", "mnil", [])])))
            extra = [("sub", rng.choice([None, 0, 3]), [("gate", "mnil", [])] * rng.choice([0, 1, 2])),
                     ("sub", rng.choice([2, 5]), [("gate", "mnil2", [("q", "q", 0)])]),
                     ("loop", rng.choice([0, 2]), [("gate", "mnil", [])])]
            rng.shuffle(extra)
            p["body"] = p["body"] + extra[:rng.choice([1, 2, 3])]
        text = ref.to_text(p)
        yield text, {"prog": p, "text": text}, has_macro_call(p)


def macro_calls_left(block, macros):
    from jaqalpaq.core import GateStatement, BlockStatement, LoopStatement
    out = []
    for s in block.statements:
        if isinstance(s, GateStatement):
            if s.name in macros:
                out.append(s.name)
        elif isinstance(s, LoopStatement):
            out += macro_calls_left(s.statements, macros)
        else:
            out += macro_calls_left(s, macros)
    return out


def check(pl):
    from jaqalpaq.core.algorithm import expand_macros
    p, text = pl["prog"], pl["text"]
    try:
        want = ref.sem(p)
    except ref.RefError:
        return None
    try:
        c = parse_native(text)
    except JaqalError as ex:
        return f"generated program rejected by the parser: {ex}"
    e = expand_macros(c)
    left = macro_calls_left(e.body, c.macros)
    if left:
        return f"macro calls left after expansion: {left}"
    got = ref.circuit_sem(e)
    if got != want:
        return f"meaning changed by expand_macros:\n want {want}\n got  {got}"
    if list(e.constants) != list(c.constants) or list(e.registers) != list(c.registers) or e.native_gates != c.native_gates or e.usepulses != c.usepulses:
        return "header data not carried over"
    return None


if __name__ == "__main__":
    sys.exit(common.main("C04", sys.modules[__name__]))
