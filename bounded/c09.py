#!/usr/bin/env python3
"""C09 bounded stand-in: subcircuit { B } == prepare_all; B; measure_all."""
import sys, os
sys.path.insert(0, os.path.dirname(os.path.dirname(os.path.abspath(__file__))))
import numpy
from bounded import common, ref, emu
from bounded.common import parse_native, JaqalError, native_gates

RULE = ("random valid programs with subcircuit blocks (top level, in loops, with literal / let counts, next to explicit prepare/measure "
        "segments; macros, aliases, nested blocks inside); checks: expand_subcircuits leaves no subcircuit block, its meaning equals the "
        "reference meaning with each subcircuit spelled prepare_all..measure_all, header data / macros / loop counts unchanged, caller-supplied "
        "and native bounding definitions are the ones used; the two spellings give identical emulation results (same seed) and identical "
        "output-list parsing; non-trivial = program has a subcircuit block")
BOUND = "n <= 3 qubits, <= 2 top-level segments, depth <= 3"
BUDGET_S = {"quick": 40, "thorough": 400}


def explicit(p):
    def tr(s):
        k = s[0]
        if k == "gate":
            return [s]
        if k in ("seq", "par"):
            out = []
            for c in s[1]:
                out += tr(c)
            return [(k, out)]
        if k == "loop":
            out = []
            for c in s[2]:
                out += tr(c)
            return [("loop", s[1], out)]
        out = []
        for c in s[2]:
            out += tr(c)
        return [("gate", "prepare_all", [])] + out + [("gate", "measure_all", [])]
    q = dict(p)
    body = []
    for s in p["body"]:
        body += tr(s)
    q["body"] = body
    return q


def cases(tier, rng):
    count = 3000 if tier == "quick" else 40000
    for i in range(count):
        n = rng.choice([1, 2, 3])
        g = ref.Gen(rng, n=n, use_sub=True, bracket=True, gates=("X", "H", "Rx", "CX"), max_depth=2)
        p = g.program()
        if i % 4 == 1:
            # a subcircuit block inside a macro that is called from another macro (both levels must be rebuilt, and the
            # calls must refer to the rebuilt definitions)
            p["macros"].append(("msb", ["x", "c"], ("seq", [("sub", "c", [("gate", "X", [("id", "x")])])])))
            p["macros"].append(("mso", ["y"], ("seq", [("gate", "msb", [("id", "y"), ("num", rng.choice([1, 2]))])])))
            p["body"].append(("gate", "mso", [("q", "q", 0)]))
        brackets = False
        if i % 5 == 0:
            # a subcircuit block whose body itself begins with prepare_all or ends with measure_all: still bracketed by
            # one more of each (so `subcircuit { B; measure_all }` is as ill-bracketed as the explicit spelling)
            for k, st in enumerate(p["body"]):
                if st[0] == "sub":
                    body = list(st[2])
                    if rng.random() < 0.5:
                        body.insert(0, ("gate", "prepare_all", []))
                    else:
                        body.append(("gate", "measure_all", []))
                    p["body"][k] = ("sub", st[1], body)
                    brackets = True
                    break
        text = ref.to_text(p)
        try:
            ref.static_valid(p)
            tree = ref.sem(p)
            if not emu.gates_valid(tree) or not ref.par_disjoint(tree, n):
                continue
            if not brackets:
                emu.ref_subcircuits(tree)
        except (ref.RefError, emu.Rejected):
            continue
        yield text, {"prog": p, "text": text, "brackets": brackets}, "subcircuit" in text


def subs_left(block):
    from jaqalpaq.core import BlockStatement, LoopStatement
    n = 0
    for s in block.statements:
        if isinstance(s, BlockStatement):
            n += int(s.subcircuit) + subs_left(s)
        elif isinstance(s, LoopStatement):
            n += int(s.statements.subcircuit) + subs_left(s.statements)
    return n


def result_view(res):
    return ([numpy.round(numpy.asarray(sc.simulated_probability_by_int), 12).tolist() for sc in res.subcircuits],
            [(r.index, r.subcircuit.index, r.as_int, r.as_str) for r in res.readouts],
            [numpy.asarray(sc.relative_frequency_by_int).tolist() for sc in res.subcircuits])


def check(pl):
    from jaqalpaq.emulator import run_jaqal_circuit
    from jaqalpaq.core.algorithm import expand_subcircuits
    from jaqalpaq.core.result import parse_jaqal_output_list
    from jaqalpaq.core.gatedef import GateDefinition
    p, text = pl["prog"], pl["text"]
    c = parse_native(text)
    e = expand_subcircuits(c)
    if subs_left(e.body):
        return "subcircuit block left behind by expand_subcircuits"
    want = ref.sem(p, expand_sub=True)
    got = ref.circuit_sem(e)
    if got != want:
        return f"expand_subcircuits changed the meaning:\n want {want}\n got  {got}"
    if (list(e.constants.items()) != list(c.constants.items()) or list(e.registers.items()) != list(c.registers.items())
            or e.native_gates != c.native_gates or e.usepulses != c.usepulses or list(e.macros) != list(c.macros)):
        return "header data / macros not preserved by expand_subcircuits"
    # bounding definitions: native ones when present, the caller's when supplied
    def bounding(circ):
        out = []
        def walk(b):
            for s in b.statements:
                if hasattr(s, "gate_def") and s.name in ("prepare_all", "measure_all", "myprep", "mymeas"):
                    out.append(s.gate_def)
                elif hasattr(s, "statements"):
                    walk(s.statements if not hasattr(s, "parallel") else s)
        walk(circ.body)
        for mac in circ.macros.values():
            walk(mac.body)
        return out
    if "subcircuit" in text:
        ng = c.native_gates
        for gd in bounding(e):
            if gd is not ng.get(gd.name):
                return f"inserted {gd.name} is not the circuit's native definition"
        mp, mm = GateDefinition("myprep"), GateDefinition("mymeas")
        e2 = expand_subcircuits(c, prepare_def=mp, measure_def=mm)
        used = [gd for gd in bounding(e2) if gd.name in ("myprep", "mymeas")]
        if not used or any(gd is not mp and gd is not mm for gd in used):
            return "caller-supplied prepare/measure definitions were not used"
        ownp = GateDefinition("prepare_all")
        e3 = expand_subcircuits(c, prepare_def=ownp)
        if not any(gd is ownp for gd in bounding(e3)):
            return "caller-supplied definition named like a native gate was replaced by the native one"
    # the two spellings behave identically
    text2 = ref.to_text(explicit(p))
    c2 = parse_native(text2)
    def run(circ):
        numpy.random.seed(5)
        try:
            return run_jaqal_circuit(circ)
        except JaqalError as ex:
            return None
    r1, r2 = run(c), run(c2)
    if (r1 is None) != (r2 is None):
        return (f"`subcircuit {{B}}` is {'rejected' if r1 is None else 'accepted'} but `prepare_all; B; measure_all` is "
                f"{'rejected' if r2 is None else 'accepted'}")
    if r1 is None:
        return None
    if result_view(r1) != result_view(r2):
        return "emulation of `subcircuit {B}` differs from `prepare_all; B; measure_all`"
    n = len(r1.readouts)
    outs = [i % 2 for i in range(n)]
    o1 = parse_jaqal_output_list(c, list(outs))
    o2 = parse_jaqal_output_list(c2, list(outs))
    if result_view_o(o1) != result_view_o(o2):
        return "output-list parsing differs between the two spellings"
    return None


def result_view_o(res):
    return ([(r.index, r.subcircuit.index, r.as_int, r.as_str) for r in res.readouts],
            [numpy.asarray(sc.relative_frequency_by_int).tolist() for sc in res.subcircuits])


if __name__ == "__main__":
    sys.exit(common.main("C09", sys.modules[__name__]))
