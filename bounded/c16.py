#!/usr/bin/env python3
"""C16 bounded stand-in: failures are JaqalErrors with a position; no crashes, hangs or sticky state."""
import sys, os, re
sys.path.insert(0, os.path.dirname(os.path.dirname(os.path.abspath(__file__))))
import numpy
from bounded import common, ref
from bounded.common import JaqalError

RULE = ("grammar-guided mutants of random programs (token deleted / duplicated / swapped / replaced by punctuation, keywords, numbers, illegal "
        "characters; truncation at every token; unterminated blocks and comments - also followed by dozens of lines; numeric literals beyond the float range wherever a number may stand; negative / zero loop counts; let-valued sizes and indices; "
        "calls with too few / too many / no arguments; alias chains; programs without a register), handed to parse_jaqal_string and, when they "
        "parse, to run_jaqal_circuit, fill_in_let, expand_macros, get_used_qubit_indices, generate; allowed outcomes: a result, JaqalError "
        "(JaqalParseError with integer line/column inside the text for syntax errors), ImportError for an unknown pulse module; 5 s watchdog; "
        "each text is processed twice with other (failing and succeeding) texts in between and must give the same outcome; "
        "non-trivial = the text is rejected")
BOUND = "programs n <= 3, depth <= 2; <= 60 mutants per program"
BUDGET_S = {"quick": 45, "thorough": 400}
CASE_TIMEOUT_S = 5

JUNK = ["]", "[", "{", "}", "<", ">", "|", ":", ";", "let", "map", "loop", "register", "macro", "subcircuit", "from", "usepulses", "*", "-1", "0",
        "1.5", "1e-3", "$", "@", "#", "'", "\"", "\\", "/*", "*/", "//", "q", "zz", "q[9]", "branch", "'01'", "\t", "\r", "é", "=", "(", ")"]


def tokens(text):
    return re.findall(r"[A-Za-z_][A-Za-z0-9_.]*|-?\d+\.\d+|-?\d+|\n|[^\sA-Za-z0-9_]", text)


def join(toks):
    return "".join(t if t == "\n" else t + " " for t in toks)


FIXED = [
    "", "\n", "register q[", "register q[2]\n{ foo", "register q[2]\nloop", "let a 1\nregister q[2]\nfoo a[0]\n", "register q[2]\nfoo q[0] /* unterminated",
    "register r[3]\nmap a r\nmap b a[1]\nmap c b[0]\nfoo c\n", "prepare_all\nmeasure_all\n", "foo\n", "register q[2]\nregister r[2]\nfoo q[0]\n",
    "register q[2]\nloop -1 {\nprepare_all\nX q[0]\nmeasure_all\n}\n", "let n -3\nregister q[2]\nloop n {\nprepare_all\nmeasure_all\n}\n",
    "register q[2]\nmacro m a { foo a }\nm\n", "register q[2]\nmacro m a { X a }\nprepare_all\nm\nmeasure_all\n", "register q[0]\n", "register q[-1]\n",
    "let n 0\nregister q[n]\nprepare_all\nmeasure_all\n", "register q[2]\nprepare_all\nX q[0] q[1]\nmeasure_all\n", "register q[2]\nprepare_all\nX\nmeasure_all\n",
    "from nosuchmodule.anywhere usepulses *\nregister q[2]\nprepare_all\nmeasure_all\n", "register q[2]\nprepare_all\nRx q[0] q[1]\nmeasure_all\n",
    "register q[2]\nmap a q[0:3:0]\nprepare_all\nX a[0]\nmeasure_all\n", "register q[2]\nsubcircuit { subcircuit { X q[0] } }\n",
    "register q[2]\n< subcircuit { X q[0] } >\n", "register q[2]\nbranch { '0' : { X q[0] } }\n", "register q[1.5]\n", "let x 1.5\nregister q[x]\nprepare_all\nmeasure_all\n",
    "register q[2]\nprepare_all\nloop 1.5 { X q[0] }\nmeasure_all\n", "let c 0.5\nregister q[2]\nprepare_all\nloop c { X q[0] }\nmeasure_all\n",
    # an identifier of the wrong kind where a number must stand, also through an untyped macro parameter
    "register q[2]\nmap a q[q:2:2]\nprepare_all\nmeasure_all\n", "register q[3]\nmap a q[0:q]\n", "register q[2]\nmap s q[1]\nmap a q[0:s]\n",
    "register q[2]\nprepare_all\nloop q {\nX q[0]\n}\nmeasure_all\n", "register q[2]\nmap s q[1]\nprepare_all\nloop s {\nX q[0]\n}\nmeasure_all\n",
    "register q[2]\nsubcircuit q {\nX q[0]\n}\n", "register q[2]\nmacro m t {\nRx q[0] t\n}\nprepare_all\nm q[1]\nmeasure_all\n",
    "register q[2]\nmacro m0 x t {\nRx x t\n}\nmacro m1 t x {\nm0 q[0] t\n}\nprepare_all\nm1 q[1] 1.5\nmeasure_all\n",
    "register q[2]\nmacro m n {\nloop n {\nX q[0]\n}\n}\nprepare_all\nm q\nmeasure_all\n", "register q[2]\nmacro m x {\nX x\n}\nprepare_all\nm 1.5\nmeasure_all\n",
    # numeric literals at the edge of the float range, wherever a number may stand
    "let big 1e999\nregister q[2]\nprepare_all\nmeasure_all\n", "let x -1e400\nregister q[2]\nprepare_all\nRx q[0] x\nmeasure_all\n",
    "let big 1e999\nregister q[big]\n", "register q[2]\nprepare_all\nloop 1e999 { X q[0] }\nmeasure_all\n", "let n 1e999\nregister q[2]\nprepare_all\nloop n { X q[0] }\nmeasure_all\n",
    "register q[2]\nprepare_all\nRx q[0] 1e999\nmeasure_all\n", "register q[2]\nprepare_all\nX q[1e999]\nmeasure_all\n", "register q[2]\nmap a q[0:1e999]\n",
    "register q[2]\nprepare_all\nX q[99999999999999999999]\nmeasure_all\n", "let t 1e-999\nregister q[2]\nprepare_all\nRx q[0] t\nmeasure_all\n",
    # unterminated block comments followed by many lines (a lexer pattern that backtracks does not return)
    "register q[2]\n/* never closed\n" + "X q[0]\n" * 30, "register q[2]\nprepare_all\n/* never closed\n" + "* x *\n" * 60, "/*" + "\n" * 80,
    "register q[2]\n/* closed */ /* never closed " + "a*b/\n" * 40, "// line\n" * 50 + "/* open\n" * 40,
]


LATE_HEADERS = ["let zz 1", "map zz q", "register zr[2]", "from foo.bar usepulses *", "from .rel usepulses *", "map zz q[0:1]"]


def cases(tier, rng):
    for t in FIXED:
        yield "fixed:" + t, {"text": t}, True
    # a header statement after a body statement: a parse error AT that statement (position of the offending token)
    for h in LATE_HEADERS:
        for pre in ("register q[2]\nX q[0]\n", "let a 1\nregister q[2]\nloop 2 {\n\tX q[0]\n}\n\n", "X q[0]; "):
            t = pre + h + "\n"
            line = pre.count("\n") + 1
            col = len(pre) - (pre.rfind("\n") + 1) + 1
            yield "late-header:" + t, {"text": t, "min_pos": [line, col]}, True
    count = 60 if tier == "quick" else 1500
    for i in range(count):
        n = rng.choice([1, 2, 3])
        g = ref.Gen(rng, n=n, use_sub=(i % 2 == 0), bracket=True, max_depth=2, gates=("X", "H", "Rx", "CX"))
        p = g.program()
        text = ref.to_text(p)
        yield "base:" + text, {"text": text}, False
        toks = tokens(text)
        idxs = list(range(len(toks)))
        rng.shuffle(idxs)
        for j in idxs[: (12 if tier == "quick" else 60)]:
            op = rng.choice(["del", "dup", "swap", "rep", "trunc", "ins"])
            m = list(toks)
            if op == "del":
                del m[j]
            elif op == "dup":
                m.insert(j, m[j])
            elif op == "swap" and j + 1 < len(m):
                m[j], m[j + 1] = m[j + 1], m[j]
            elif op == "rep":
                m[j] = rng.choice(JUNK)
            elif op == "trunc":
                m = m[:j]
            else:
                m.insert(j, rng.choice(JUNK))
            t = join(m)
            yield f"{op}{j}:" + t, {"text": t}, True


def outcome(text, native=True):
    from jaqalpaq.parser import parse_jaqal_string
    from jaqalpaq.parser.slyparse import JaqalParseError
    from jaqalpaq.emulator import run_jaqal_circuit
    from jaqalpaq.core.algorithm import fill_in_let, expand_macros
    from jaqalpaq.core.algorithm.used_qubit_visitor import get_used_qubit_indices
    from jaqalpaq.generator import generate_jaqal_program
    stage = "parse"
    try:
        c = parse_jaqal_string(text, inject_pulses=common.native_gates(), autoload_pulses=("usepulses" in text))
        stage = "fill_in_let"
        fill_in_let(c)
        stage = "expand_macros"
        expand_macros(c)
        stage = "used qubits"
        get_used_qubit_indices(c)
        stage = "generate"
        generate_jaqal_program(c)
        stage = "run"
        numpy.random.seed(1)
        r = run_jaqal_circuit(c)
        return ("ok", len(r.subcircuits), [x.as_int for x in r.readouts]), None
    except JaqalParseError as ex:
        nlines = text.count("\n") + 1
        if not isinstance(ex.line, int) or not isinstance(ex.column, int):
            return ("parse-error",), f"JaqalParseError without an integer position: line={ex.line!r} column={ex.column!r}"
        if not (1 <= ex.line <= nlines + 1):
            return ("parse-error",), f"JaqalParseError line {ex.line} outside the text ({nlines} lines)"
        return ("parse-error", ex.line, ex.column), None
    except JaqalError as ex:
        return ("jaqal-error", stage), None
    except ImportError as ex:
        if "usepulses" in text:
            return ("import-error",), None
        return ("crash",), f"ImportError escaped at {stage}: {ex}"
    except Exception as ex:
        return ("crash",), f"{type(ex).__name__} escaped at {stage}: {ex}"


_history = []


def check(pl):
    text = pl["text"]
    o1, msg = outcome(text)
    if msg:
        return msg
    if pl.get("min_pos"):
        if o1[0] != "parse-error":
            return f"a header statement after a body statement is not a parse error: {o1}"
        if [o1[1], o1[2]] < list(pl["min_pos"]):
            return f"misplaced header statement at {pl['min_pos']} reported at {[o1[1], o1[2]]}, before the offending statement"
    # sticky state: the same text after some other texts (failing and succeeding ones) gives the same outcome
    for other in _history[-3:]:
        outcome(other)
    o2, msg2 = outcome(text)
    _history.append(text)
    if msg2:
        return msg2
    if o1 != o2:
        return f"the same text gave different outcomes: {o1} then {o2}"
    return None


if __name__ == "__main__":
    sys.exit(common.main("C16", sys.modules[__name__]))
