#!/usr/bin/env python3
"""C19 bounded stand-in: unit-timing normalisation preserves the lock-step schedule."""
import sys, os
sys.path.insert(0, os.path.dirname(os.path.dirname(os.path.abspath(__file__))))
from collections import Counter
from bounded import common, ref
from bounded.common import parse_native, JaqalError

RULE = ("random programs with alternating sequential / parallel nestings to depth 4, branch lengths 0-3, empty blocks, loops (at top level, in "
        "sequential blocks, and - to be rejected - inside parallel blocks), subcircuit blocks with counts, lets, aliases, pulse imports; oracle: "
        "the reference schedule of the input (unit time per gate instance, branches of a parallel block start together, a loop or subcircuit "
        "block is one schedulable item whose body is scheduled recursively) compared with the schedule read off the normalised circuit; also: "
        "the result body is flat (gates, loops, parallel groups of gates), no gate instance lost or duplicated, header data and subcircuit "
        "annotations preserved, loop-in-parallel raises JaqalError; non-trivial = program has a parallel block with a sequential branch")
BOUND = "n <= 4, depth <= 4, <= 3 statements per block"
BUDGET_S = {"quick": 40, "thorough": 400}


def cases(tier, rng):
    count = 1500 if tier == "quick" else 30000
    for i in range(count):
        n = rng.choice([2, 3, 4])
        g = ref.Gen(rng, n=n, use_sub=(i % 3 == 0), bracket=(i % 3 == 0), use_macros=False, max_depth=4, use_loops=(i % 2 == 0), gates=("X", "H", "Rx", "CX"))
        g.empty_blocks = (i % 2 == 1)
        p = g.program()
        if i % 7 == 0:
            p["body"].append(("par", [("gate", "X", [("q", "q", 0)]), ("loop", 2, [("gate", "H", [("q", "q", 1 % n)])])]))
        if i % 5 == 0:
            p["body"].append(("par", []))
            p["body"].append(("seq", []))
        text = ref.to_text(p)
        nt = "<" in text and "{" in text.split("<", 1)[1]
        yield text, {"text": text}, nt
        if i % 7 == 0:
            # the same program handed to the builder as an S-expression (the text grammar forbids a loop directly in <>)
            yield "sexp:" + text, {"text": text, "prog": p}, True


# schedule of a jaqalpaq statement tree: list of time steps, each a Counter of leaf descriptions
def leaf(s):
    from jaqalpaq.core import GateStatement
    return ("gate", s.name, tuple(repr(v) for v in s.parameters.values()))


def sched(s):
    from jaqalpaq.core import GateStatement, BlockStatement, LoopStatement
    if isinstance(s, GateStatement):
        return [Counter([leaf(s)])]
    if isinstance(s, LoopStatement):
        return [Counter([("loop", repr(s.iterations), freeze(sched(s.statements)))])]
    if isinstance(s, BlockStatement):
        if s.subcircuit:
            return [Counter([("sub", repr(s.iterations), freeze(sched_block(s)))])]
        return sched_block(s)
    raise ValueError(type(s))


def sched_block(b):
    if not b.parallel:
        out = []
        for c in b.statements:
            out += sched(c)
        return out
    branches = [sched(c) for c in b.statements]
    n = max([len(x) for x in branches], default=0)
    out = []
    for t in range(n):
        step = Counter()
        for br in branches:
            if t < len(br):
                step += br[t]
        out.append(step)
    return out


def freeze(steps):
    return tuple(tuple(sorted(st.items())) for st in steps)


def has_loop_in_par(b, inpar=False):
    from jaqalpaq.core import BlockStatement, LoopStatement
    for s in b.statements:
        if isinstance(s, LoopStatement):
            if inpar:
                return True
            # the pass leaves loop bodies untouched: what is inside is not scheduled by it
        elif isinstance(s, BlockStatement):
            if has_loop_in_par(s, inpar or b.parallel or s.parallel if not s.subcircuit else False):
                return True
    return False


def flat_ok(body):
    from jaqalpaq.core import GateStatement, BlockStatement, LoopStatement
    for s in body.statements:
        if isinstance(s, GateStatement):
            continue
        if isinstance(s, LoopStatement):
            continue      # a loop is one schedulable item; its body is not this pass's business
        if isinstance(s, BlockStatement):
            if s.subcircuit:
                if not flat_ok(s):
                    return False
                continue
            if not s.parallel or not all(isinstance(x, GateStatement) for x in s.statements):
                return False
    return True


def check(pl):
    from jaqalpaq.core.algorithm.unit_timing import normalize_blocks_with_unitary_timing
    text = pl["text"]
    try:
        if "prog" in pl:
            from bounded.c02 import expected_sexp
            from jaqalpaq.core.circuitbuilder import build
            sx = [x for x in expected_sexp(pl["prog"]) if not (isinstance(x, list) and x and x[0] == "usepulses")]
            c = build(sx, inject_pulses=common.native_gates())
        else:
            c = parse_native(text)
    except JaqalError:
        return None
    lip = has_loop_in_par(c.body, c.body.parallel)
    try:
        r = normalize_blocks_with_unitary_timing(c)
    except JaqalError as ex:
        return None if lip else f"rejected a program without a loop inside a parallel block: {ex}"
    if lip:
        return "a loop nested inside a parallel block was accepted instead of being rejected with JaqalError"
    want = freeze(sched_block(c.body))
    got = freeze(sched_block(r.body))
    if want != got:
        return f"schedule changed by normalisation\n want {want}\n got  {got}"
    if not flat_ok(r.body):
        return "normalised body is not a flat sequence of gates, parallel groups of gates and loops"
    if (list(r.constants.items()) != list(c.constants.items()) or list(r.registers.items()) != list(c.registers.items())
            or r.native_gates != c.native_gates or r.usepulses != c.usepulses or list(r.macros) != list(c.macros)):
        return "header data not preserved"
    return None


if __name__ == "__main__":
    sys.exit(common.main("C19", sys.modules[__name__]))
