#!/usr/bin/env python3
"""C17 bounded stand-in: Jaqal text, the builder API and Q-syntax build the same circuit."""
import sys, os
sys.path.insert(0, os.path.dirname(os.path.dirname(os.path.abspath(__file__))))
from bounded import common, ref
from bounded.common import JaqalError

RULE = ("abstract programs (one register - named or anonymous -, lets - named, anonymous, user names of the auto-namer's form __c0/__r0 of "
        "either kind, declared before or after anonymous ones -, gates on literal / let indices, nested sequential / parallel blocks, loops "
        "with literal / let counts, subcircuit blocks with literal / let / default counts, a body that starts with prepare_all, a subcircuit, "
        "a loop or block whose first statement (recursively) is one of those, or neither) rendered three ways: Jaqal text, CircuitBuilder "
        "calls, a Q-syntax function (called twice); the circuits must be equal (Q-syntax adds prepare_all/measure_all exactly when the body does not "
        "already begin with a prepare or a subcircuit); non-trivial = program has an anonymous declaration or a nested first statement")
BOUND = "register size <= 3, <= 3 lets, depth <= 3, <= 3 statements per block"
BUDGET_S = {"quick": 40, "thorough": 400}


def gen(rng, i):
    n = rng.choice([2, 3])
    lets = []
    kinds = rng.choice([["named"], ["anon"], ["anon", "user_c0"], ["user_c0", "anon"], ["user_r0_let", "anon"], ["anon", "anon", "named"], []])
    for k, kd in enumerate(kinds):
        if kd == "named":
            lets.append({"name": f"v{k}", "value": rng.choice([1, 2, 0.5])})
        elif kd == "anon":
            lets.append({"name": None, "value": rng.choice([1, 2])})
        elif kd == "user_c0":
            lets.append({"name": "__c0", "value": 1})
        else:
            lets.append({"name": "__r0", "value": 1})
    regname = rng.choice(["q", None, None, "__r0" if not any(l["name"] == "__r0" for l in lets) else "q", "__c0" if not any(l["name"] == "__c0" for l in lets) else "q"])
    int_lets = [j for j, l in enumerate(lets) if isinstance(l["value"], int)]

    def idx():
        if int_lets and rng.random() < 0.3:
            j = rng.choice(int_lets)
            if lets[j]["value"] < n:
                return ("let", j)
        return rng.randrange(n)

    def gate():
        g = rng.choice(["X", "H", "Rx"])
        if g == "Rx":
            return ("gate", "Rx", [("q", idx()), rng.choice([0.25, 1.5, ("let", rng.randrange(len(lets)))]) if lets and rng.random() < 0.4 else 0.75])
        return ("gate", g, [("q", idx())])

    def stmts(depth, kind="seq"):
        out = []
        for _ in range(rng.choice([1, 2, 3])):
            x = rng.random()
            if depth < 2 and x < 0.15 and kind == "seq":
                out.append(("loop", rng.choice([2, ("let", rng.choice(int_lets))]) if int_lets and rng.random() < 0.4 else rng.choice([2, 2, 0, 1]), stmts(depth + 1)))
            elif depth < 2 and x < 0.3 and kind == "seq":
                out.append(("par", stmts(depth + 1, "par")))
            elif depth < 2 and x < 0.3 and kind == "par":
                out.append(("seq", stmts(depth + 1, "seq")))
            else:
                out.append(gate())
        return out

    def sub():
        # boundary counts 0 and 1 are written out: a front end that treats a falsy count as "not given" shows here
        cnt = rng.choice([None, 3, 0, 1, ("let", rng.choice(int_lets))]) if int_lets else rng.choice([None, 3, 0, 1])
        return ("sub", cnt, stmts(1))

    first = rng.choice(["plain", "prepare", "sub", "loop_sub", "loop_loop_sub", "loop_prepare", "seq_prepare", "loop_plain"])
    body = []
    if first == "plain":
        body = stmts(0)
    elif first == "prepare":
        body = [("gate", "prepare_all", [])] + stmts(0) + [("gate", "measure_all", [])]
    elif first == "sub":
        body = [sub(), sub()]
    elif first == "loop_sub":
        body = [("loop", 2, [sub()]), sub()]
    elif first == "loop_loop_sub":
        body = [("loop", 2, [("loop", 3, [sub()])])]
    elif first == "loop_prepare":
        body = [("loop", 2, [("gate", "prepare_all", [])] + stmts(1) + [("gate", "measure_all", [])])]
    elif first == "seq_prepare":
        body = [("seq", [("gate", "prepare_all", [])] + stmts(1) + [("gate", "measure_all", [])])]
    else:
        body = [("loop", 2, stmts(1))]
    return {"n": n, "regname": regname, "lets": lets, "body": body, "first": first}


def cases(tier, rng):
    count = 700 if tier == "quick" else 10000
    for i in range(count):
        p = gen(rng, i)
        nt = p["regname"] is None or any(l["name"] is None for l in p["lets"]) or p["first"] not in ("plain", "prepare")
        yield repr(p), {"prog": p}, nt


def starts(p, stmt):
    if stmt[0] == "sub":
        return True
    if stmt[0] == "gate":
        return stmt[1] == "prepare_all"
    kids = stmt[1] if stmt[0] in ("seq", "par") else stmt[2]
    return len(kids) > 0 and starts(p, kids[0])


def names_for(p):
    """the names the three renderings use: user names, else fresh ones not colliding with ANY user name"""
    user = {l["name"] for l in p["lets"] if l["name"]} | ({p["regname"]} if p["regname"] else set())
    out = []
    k = 0
    for l in p["lets"]:
        if l["name"]:
            out.append(l["name"])
        else:
            while f"__c{k}" in user:
                k += 1
            out.append(f"__c{k}")
            k += 1
    r = p["regname"]
    if r is None:
        j = 0
        while f"__r{j}" in user:
            j += 1
        r = f"__r{j}"
    return out, r


def to_text(p):
    ln, rn = names_for(p)

    def val(v):
        return ln[v[1]] if isinstance(v, tuple) else str(v)

    def st(s, ind):
        pad = "\t" * ind
        if s[0] == "gate":
            args = []
            for a in s[2]:
                if isinstance(a, tuple) and a[0] == "q":
                    args.append(f"{rn}[{val(a[1])}]")
                else:
                    args.append(val(a))
            return pad + " ".join([s[1]] + args) + "\n"
        if s[0] == "seq":
            return pad + "{\n" + "".join(st(c, ind + 1) for c in s[1]) + pad + "}\n"
        if s[0] == "par":
            return pad + "<\n" + "".join(st(c, ind + 1) for c in s[1]) + pad + ">\n"
        if s[0] == "loop":
            return pad + f"loop {val(s[1])} {{\n" + "".join(st(c, ind + 1) for c in s[2]) + pad + "}\n"
        cnt = "" if s[1] is None else val(s[1]) + " "
        return pad + f"subcircuit {cnt}{{\n" + "".join(st(c, ind + 1) for c in s[2]) + pad + "}\n"

    body = list(p["body"])
    if not (body and starts(p, body[0])):
        body = [("gate", "prepare_all", [])] + body + [("gate", "measure_all", [])]
    return "".join(f"let {nm} {l['value']}\n" for nm, l in zip(ln, p["lets"])) + f"register {rn}[{p['n']}]\n" + "".join(st(s, 0) for s in body)


def via_builder(p):
    from jaqalpaq.core.circuitbuilder import CircuitBuilder, SequentialBlockBuilder, ParallelBlockBuilder, SubcircuitBlockBuilder
    ln, rn = names_for(p)
    cb = CircuitBuilder()
    for nm, l in zip(ln, p["lets"]):
        cb.let(nm, l["value"], unevaluated=True)
    cb.register(rn, p["n"], unevaluated=True)

    def val(v):
        return ln[v[1]] if isinstance(v, tuple) else v

    def add(bb, s):
        if s[0] == "gate":
            args = []
            for a in s[2]:
                if isinstance(a, tuple) and a[0] == "q":
                    args.append(("array_item", rn, val(a[1])))
                else:
                    args.append(val(a))
            bb.gate(s[1], *args)
        elif s[0] in ("seq", "par"):
            nb = bb.block(parallel=(s[0] == "par"))
            for c in s[1]:
                add(nb, c)
        elif s[0] == "loop":
            nb = SequentialBlockBuilder()
            for c in s[2]:
                add(nb, c)
            bb.loop(val(s[1]), nb, unevaluated=True)
        else:
            nb = SubcircuitBlockBuilder("" if s[1] is None else val(s[1]))
            bb.expression.append(nb.expression)
            for c in s[2]:
                add(nb, c)

    body = list(p["body"])
    if not (body and starts(p, body[0])):
        body = [("gate", "prepare_all", [])] + body + [("gate", "measure_all", [])]
    for s in body:
        add(cb, s)
    return cb.build()


def via_qsyntax(p):
    from jaqalpaq.qsyntax import circuit

    @circuit
    def prog(Q):
        lets = []
        r = None
        # declaration order as in the abstract program: lets first, then the register
        for l in p["lets"]:
            lets.append(Q.let(l["value"], name=l["name"]))
        r = Q.register(p["n"], name=p["regname"])

        def val(v):
            return lets[v[1]] if isinstance(v, tuple) else v

        def emit(s):
            if s[0] == "gate":
                args = []
                for a in s[2]:
                    if isinstance(a, tuple) and a[0] == "q":
                        args.append(r[val(a[1])])
                    else:
                        args.append(val(a))
                getattr(Q, s[1])(*args)
            elif s[0] == "seq":
                with Q.sequential():
                    for c in s[1]:
                        emit(c)
            elif s[0] == "par":
                with Q.parallel():
                    for c in s[1]:
                        emit(c)
            elif s[0] == "loop":
                with Q.loop(val(s[1])):
                    for c in s[2]:
                        emit(c)
            else:
                if s[1] is None:
                    with Q.subcircuit():
                        for c in s[2]:
                            emit(c)
                else:
                    with Q.subcircuit(val(s[1])):
                        for c in s[2]:
                            emit(c)

        for s in p["body"]:
            emit(s)

    # the decorated function is called twice: every call builds the circuit afresh (history: no state of an earlier
    # call may leak into a later one)
    first = prog()
    second = prog()
    return first, second


def check(pl):
    from jaqalpaq.parser import parse_jaqal_string
    p = pl["prog"]
    text = to_text(p)
    try:
        ct = parse_jaqal_string(text, autoload_pulses=False)
    except JaqalError as ex:
        return f"the text rendering is rejected: {ex}\n{text}"
    try:
        cb = via_builder(p)
    except JaqalError as ex:
        return f"the builder rendering is rejected: {ex}"
    try:
        cq, cq2 = via_qsyntax(p)
    except JaqalError as ex:
        return f"the Q-syntax rendering is rejected (the decorated function is called twice): {ex}\n{text}"
    if not (cq == cq2 and ct == cq2):
        from jaqalpaq.generator import generate_jaqal_program
        return f"calling the same Q-syntax function a second time builds a different circuit\n--- first\n{generate_jaqal_program(cq)}\n--- second\n{generate_jaqal_program(cq2)}"
    if not (ct == cb and cb == ct):
        return f"text and builder API build different circuits\n{text}"
    if not (ct == cq and cq == ct):
        from jaqalpaq.generator import generate_jaqal_program
        return f"text and Q-syntax build different circuits\n--- text\n{text}\n--- Q-syntax\n{generate_jaqal_program(cq)}"
    return None


if __name__ == "__main__":
    sys.exit(common.main("C17", sys.modules[__name__]))
