"""An independent recogniser for the Jaqal grammar (the SPECIFICATION side of C02: "accepts exactly the grammar").
Hand-written recursive descent over its own tokeniser; it shares no code with jaqalpaq's lexer or parser.  It answers one
question: is this text a syntactically legal Jaqal program (header statements before body statements included)?

Token classes follow the language definition: identifiers may contain single dots, numbers are ints or floats with an
optional sign, '...' is a binary literal, // and /* */ are comments (not nested), newlines and ';' separate statements in
sequential context, newlines and '|' in parallel context."""
import re

KEYWORDS = {"register", "map", "let", "macro", "loop", "import", "usepulses", "from", "as", "branch", "subcircuit"}
TOKEN_RE = re.compile(r"""
    (?P<NL>\n+)
  | (?P<ID>[a-zA-Z_](\.?[a-zA-Z0-9_])*)
  | (?P<DOTID>\.([a-zA-Z_](\.?[a-zA-Z0-9_])*)?)
  | (?P<NUM>[-+]?([0-9]*\.[0-9]+([eE][-+]?[0-9]+)?|[0-9]+[eE][-+]?[0-9]+))
  | (?P<INT>[-+]?[0-9]+)
  | (?P<BIN>'[0-1]+')
  | (?P<LCOM>//[^\n]*)
  | (?P<BCOM>/\*.*?\*/)
  | (?P<WS>[ \t]+)
  | (?P<LIT>[<>|{};\[\],*:])
""", re.X | re.S)


class Reject(Exception):
    pass


def tokenize(text):
    out = []
    i = 0
    while i < len(text):
        m = TOKEN_RE.match(text, i)
        if not m or m.end() == i:
            raise Reject(f"illegal character at {i}")
        k = m.lastgroup
        v = m.group(k)
        i = m.end()
        if k in ("WS", "LCOM"):
            continue
        if k == "BCOM":
            continue
        if k == "NUM":
            if float(v) in (float("inf"), float("-inf")):
                raise Reject("number out of range")
        if k == "ID" and v in KEYWORDS:
            out.append(("KW", v))
        elif k == "LIT":
            out.append((v, v))
        else:
            out.append((k, v))
    return out


class P:
    def __init__(self, toks):
        self.t = toks
        self.i = 0
        self.in_body = False

    def peek(self, k=0):
        return self.t[self.i + k] if self.i + k < len(self.t) else ("EOF", None)

    def at(self, kind, val=None):
        a = self.peek()
        return a[0] == kind and (val is None or a[1] == val)

    def eat(self, kind, val=None):
        if not self.at(kind, val):
            raise Reject(f"expected {val or kind} at token {self.i}, found {self.peek()}")
        self.i += 1

    # separators
    def seps(self, extra):
        n = 0
        while self.peek()[0] == "NL" or self.peek()[0] == extra:
            self.i += 1
            n += 1
        return n

    def let_or_int(self):
        if self.at("INT") or self.at("ID"):
            self.i += 1
        else:
            raise Reject("expected integer or identifier")

    # statements
    def program(self):
        self.seps(";")
        while not self.at("EOF"):
            self.top_statement()
            if self.at("EOF"):
                break
            if self.seps(";") == 0:
                raise Reject("statements must be separated")
        return True

    def top_statement(self):
        a = self.peek()
        if a[0] == "KW" and a[1] in ("register", "let", "map", "from", "import"):
            if self.in_body:
                raise Reject("header statement after body statement")
            getattr(self, "st_" + a[1])()
            return
        self.in_body = True
        if a[0] == "KW" and a[1] == "macro":
            self.i += 1
            self.eat("ID")
            while self.at("ID"):
                self.i += 1
            self.gate_block()
        elif a[0] == "KW" and a[1] == "branch":
            self.st_branch()
        elif a[0] == "{":
            self.seq_block()
        else:
            self.inner_seq()

    def inner_seq(self):
        a = self.peek()
        if a[0] == "ID":
            self.gate()
        elif a[0] == "<":
            self.par_block()
        elif a[0] == "KW" and a[1] == "loop":
            self.i += 1
            self.let_or_int()
            self.gate_block()
        elif a[0] == "KW" and a[1] == "subcircuit":
            self.i += 1
            if not self.at("{"):
                self.let_or_int()
            self.seq_block()
        else:
            raise Reject(f"statement expected, found {a}")

    def gate_block(self):
        if self.at("{"):
            self.seq_block()
        elif self.at("<"):
            self.par_block()
        else:
            raise Reject("block expected")

    def seq_block(self):
        self.eat("{")
        self.seps(";")
        while not self.at("}"):
            self.inner_seq()
            if self.at("}"):
                break
            if self.seps(";") == 0:
                raise Reject("separator expected in sequential block")
        self.eat("}")

    def par_block(self):
        self.eat("<")
        self.seps("|")
        while not self.at(">"):
            if self.at("ID"):
                self.gate()
            elif self.at("{"):
                self.seq_block()
            else:
                raise Reject("gate or sequential block expected in parallel block")
            if self.at(">"):
                break
            if self.seps("|") == 0:
                raise Reject("separator expected in parallel block")
        self.eat(">")

    def gate(self):
        self.eat("ID")
        while True:
            a = self.peek()
            if a[0] == "ID":
                self.i += 1
                if self.at("["):
                    self.i += 1
                    if self.at("ID") or self.at("INT"):
                        self.i += 1
                    else:
                        raise Reject("index expected")
                    self.eat("]")
            elif a[0] in ("NUM", "INT"):
                self.i += 1
            else:
                return

    def st_register(self):
        self.i += 1
        self.eat("ID")
        self.eat("[")
        self.let_or_int()
        self.eat("]")

    def st_let(self):
        self.i += 1
        self.eat("ID")
        if self.at("NUM") or self.at("INT"):
            self.i += 1
        else:
            raise Reject("number expected")

    def st_map(self):
        self.i += 1
        self.eat("ID")
        self.eat("ID")
        if self.at("["):
            self.i += 1
            # slice_or_index: let_or_int | slice_start slice_stop slice_step
            if self.at(":"):
                self.i += 1
                self.slice_rest()
            else:
                self.let_or_int()
                if self.at(":"):
                    self.i += 1
                    self.slice_rest()
            self.eat("]")

    def slice_rest(self):
        if self.at("INT") or self.at("ID"):
            self.i += 1
        if self.at(":"):
            self.i += 1
            self.let_or_int()

    def st_from(self):
        self.i += 1
        if self.at("ID") or self.at("DOTID"):
            self.i += 1
        else:
            raise Reject("module name expected")
        self.eat("KW", "usepulses")
        self.eat("*")

    def st_import(self):
        raise Reject("import is not implemented")

    def st_branch(self):
        self.i += 1
        self.eat("{")
        self.seps(";")
        while not self.at("}"):
            self.eat("BIN")
            self.eat(":")
            self.gate_block()
            if self.at("}"):
                break
            if self.seps(";") == 0:
                raise Reject("separator expected between cases")
        self.eat("}")


def legal(text):
    try:
        toks = tokenize(text)
        # an unterminated block comment leaves '/' behind: tokenize rejects it as an illegal character
        return P(toks).program()
    except Reject:
        return False
