#!/usr/bin/env python3
"""C18 bounded stand-in: gate definitions check calls; idle and stretched variants."""
import itertools
import sys, os
sys.path.insert(0, os.path.dirname(os.path.dirname(os.path.abspath(__file__))))
import numpy
from bounded import common
from bounded.common import JaqalError

RULE = ("all signatures of length <= 2 (sampled at length 3) over the kinds {QUBIT, REGISTER, INT, FLOAT, NONE} x one value of each class per "
        "position {qubit, register, alias, int, integral float, non-integral float, int let, float let, integral float let, typed parameters of "
        "each kind, untyped parameter, str} x arity (exact, one short, one long), called positionally and by keyword (in declared and reversed "
        "keyword order); oracle: the property's table, written independently here; plus idle gates (same signature, no qubits, no effect under "
        "emulation) and stretched variants (one extra trailing float, parent's unitary for every factor) for a native set with unitaries; "
        "non-trivial = at least one argument does not fit or the arity is wrong")
BOUND = "signature length <= 3, 13 value classes per position"
BUDGET_S = {"quick": 40, "thorough": 400}

KINDS = ["QUBIT", "REGISTER", "INT", "FLOAT", "NONE"]


def values():
    from jaqalpaq.core import Register, Constant, Parameter
    from jaqalpaq.core.parameter import ParamType
    q = Register("q", 4)
    a = Register("a", alias_from=q, alias_slice=slice(0, 2, 1))
    return {
        "qubit": q[1], "register": q, "alias": a, "int": 3, "ifloat": 2.0, "float": 2.5,
        "ilet": Constant("i", 2), "flet": Constant("f", 0.5), "iflet": Constant("g", 4.0),
        "pQ": Parameter("pq", ParamType.QUBIT), "pR": Parameter("pr", ParamType.REGISTER), "pI": Parameter("pi", ParamType.INT),
        "pF": Parameter("pf", ParamType.FLOAT), "pN": Parameter("pn", None), "str": "zz",
    }


def fits(kind, v):
    if kind == "NONE":
        return True
    if kind == "QUBIT":
        return v in ("qubit", "pQ", "pN")
    if kind == "REGISTER":
        return v in ("register", "alias", "pR", "pN")
    if kind == "FLOAT":
        return v in ("int", "ifloat", "float", "ilet", "flet", "iflet", "pI", "pF", "pN")
    if kind == "INT":
        return v in ("int", "ifloat", "ilet", "iflet", "pI", "pN")
    raise ValueError(kind)


def cases(tier, rng):
    vals = list(values())
    out = []
    for n in (0, 1, 2, 3):
        sigs = list(itertools.product(KINDS, repeat=n))
        for sig in sigs:
            argsets = list(itertools.product(vals, repeat=n))
            if n >= 2:
                rng.shuffle(argsets)
                argsets = argsets[: (40 if tier == "quick" else 400) if n == 2 else (6 if tier == "quick" else 60)]
            for args in argsets:
                out.append(("call", list(sig), list(args), 0))
            # arity
            if n >= 1:
                out.append(("call", list(sig), [("int" if k in ("INT", "FLOAT", "NONE") else "qubit" if k == "QUBIT" else "register") for k in sig][:-1], -1))
            out.append(("call", list(sig), [("int" if k in ("INT", "FLOAT", "NONE") else "qubit" if k == "QUBIT" else "register") for k in sig] + ["int"], +1))
    for x in out:
        ok = x[3] == 0 and all(fits(k, v) for k, v in zip(x[1], x[2]))
        yield repr(x), {"kind": "call", "sig": x[1], "args": x[2]}, not ok
    for g in ("X", "H", "Rx", "CX", "CCX", "prepare_all", "measure_all"):
        yield f"idle:{g}", {"kind": "idle", "gate": g}, True
    for f in (0.5, 1.0, 3.25):
        yield f"stretch:{f}", {"kind": "stretch", "factor": f}, True


def check(pl):
    from jaqalpaq.core.gatedef import GateDefinition, IdleGateDefinition, add_idle_gates
    from jaqalpaq.core.parameter import Parameter, ParamType
    if pl["kind"] == "call":
        V = values()
        sig, args = pl["sig"], pl["args"]
        params = [Parameter(f"p{i}", getattr(ParamType, k)) for i, k in enumerate(sig)]
        gd = GateDefinition("G", params)
        want = len(args) == len(sig) and all(fits(k, v) for k, v in zip(sig, args))
        avals = [V[a] for a in args]
        outs = []
        for mode in ("pos", "kw", "kwrev"):
            if mode != "pos" and len(args) != len(sig):
                continue
            try:
                if mode == "pos":
                    st = gd.call(*avals)
                elif mode == "kw":
                    st = gd.call(**{p.name: v for p, v in zip(params, avals)})
                else:
                    st = gd.call(**dict(reversed([(p.name, v) for p, v in zip(params, avals)])))
                outs.append((mode, True, st))
            except JaqalError as ex:
                outs.append((mode, False, str(ex)))
        for mode, acc, st in outs:
            if mode == "pos" and not args and len(sig) > 0:
                continue
            if acc != want and not (mode != "pos" and not args):
                return f"{mode} call G{tuple(sig)} with {tuple(args)}: {'accepted' if acc else 'rejected: ' + str(st)}, the property's table says {'accept' if want else 'reject'}"
        accs = [st for mode, acc, st in outs if acc]
        for st in accs[1:]:
            if list(st.parameters.items()) != list(accs[0].parameters.items()) or st != accs[0]:
                return f"positional and keyword calls of G{tuple(sig)} with {tuple(args)} give different statements: {list(accs[0].parameters)} vs {list(st.parameters)}"
        if accs and [k for k in accs[0].parameters] != [p.name for p in params]:
            return "statement's parameter map is not in declared order"
        # mixing positional and keyword arguments
        if len(sig) >= 2 and want:
            try:
                gd.call(avals[0], **{params[1].name: avals[1]})
                return "mixing positional and keyword arguments was accepted"
            except JaqalError:
                pass
        return None
    if pl["kind"] == "idle":
        g = common.native_gates(idle=False)[pl["gate"]]
        if pl["gate"] in ("prepare_all", "measure_all"):
            try:
                IdleGateDefinition(g)
                return "an idle gate was derived for prepare/measure"
            except JaqalError:
                return None
        ig = IdleGateDefinition(g)
        if [(p.name, p.kind) for p in ig.parameters] != [(p.name, p.kind) for p in g.parameters] or ig.name != "I_" + g.name:
            return "idle gate signature differs from its parent"
        if list(ig.used_qubits):
            return "idle gate uses qubits"
        if ig.ideal_unitary is not None:
            return "idle gate has a unitary"
        # no effect under emulation
        from jaqalpaq.emulator import run_jaqal_circuit
        nq = len([p for p in g.parameters if p.kind == ParamType.QUBIT])
        qargs = " ".join(f"q[{i}]" for i in range(nq)) + (" 0.7" if pl["gate"] == "Rx" else "")
        t1 = f"register q[3]\nprepare_all\nH q[0]\nCX q[0] q[2]\nI_{g.name} {qargs}\nmeasure_all\n"
        t0 = f"register q[3]\nprepare_all\nH q[0]\nCX q[0] q[2]\nmeasure_all\n"
        numpy.random.seed(0)
        r1 = run_jaqal_circuit(common.parse_native(t1))
        r0 = run_jaqal_circuit(common.parse_native(t0))
        if not numpy.allclose(r1.subcircuits[0].state_vector, r0.subcircuits[0].state_vector):
            return "idle gate changed the state"
        return None
    if pl["kind"] == "stretch":
        from jaqalpaq.core.stretch import stretched_gates
        gates = common.native_gates(idle=True)
        act = {k: v for k, v in gates.items() if k not in ("prepare_all", "measure_all")}
        try:
            sg = stretched_gates(act, suffix="_stretched")
        except JaqalError as ex:
            return f"stretched_gates raised {ex}"
        f = pl["factor"]
        for name, g in act.items():
            s = sg.get(name + "_stretched")
            if s is None:
                return f"no stretched variant for {name}"
            if [(p.name, p.kind) for p in s.parameters] != [(p.name, p.kind) for p in g.parameters] + [("stretch", ParamType.FLOAT)]:
                return f"stretched {name}: signature is not the parent's plus one trailing float"
            if isinstance(g, IdleGateDefinition):
                if s.ideal_unitary is not None or list(s.used_qubits):
                    return f"stretched idle {name} is not idle"
                continue
            cargs = [0.3] if name == "Rx" else []
            want = g.ideal_unitary(*cargs)
            if s.ideal_unitary is None:
                return f"stretched {name} has no unitary"
            got = s.ideal_unitary(*cargs, f)
            if numpy.shape(got) != numpy.shape(want) or not numpy.allclose(got, want):
                return f"stretched {name} (factor {f}) does not have its parent's ideal action"
        return None


if __name__ == "__main__":
    sys.exit(common.main("C18", sys.modules[__name__]))
