#!/usr/bin/env python3
"""C08 bounded stand-in: one readout per subcircuit visit, in execution order; termination (5 s watchdog per case)."""
import sys, os
sys.path.insert(0, os.path.dirname(os.path.dirname(os.path.abspath(__file__))))
import numpy
from bounded import common, ref, emu
from bounded.common import parse_native, JaqalError

RULE = ("random valid bracketed programs (prepare/measure pairs and subcircuit blocks at top level or inside loops with counts 0..3, literal / "
        "let-valued / overridden; nested loops inside segments); oracle: reference visit sequence (loops unrolled) and flat-order numbering; "
        "checks: termination, #readouts, readout i attributed to visit i's subcircuit, sampled outcome has non-zero probability, relative "
        "frequencies count exactly the subcircuit's readouts, and parse_jaqal_output_list on int and str outputs gives the same attribution; "
        "non-trivial = program has a loop around a segment or more than one segment")
BOUND = "n <= 3 qubits, <= 2 top-level segments each optionally in a loop of count 0..3 (or let k1 / override), depth <= 3"
BUDGET_S = {"quick": 40, "thorough": 400}


def cases(tier, rng):
    count = 3000 if tier == "quick" else 40000
    for i in range(count):
        n = rng.choice([1, 2, 3])
        g = ref.Gen(rng, n=n, use_sub=True, bracket=True, gates=("X", "H", "Rx", "CX"), max_depth=2)
        p = g.program()
        ov = {}
        if i % 3 == 0 and p["lets"]:
            ov["k1"] = rng.choice([0, 1, 2, 3])
        text = ref.to_text(p)
        try:
            ref.static_valid(p, ov)
            tree = ref.sem(p, ov)
            n2 = int(ref.num(p["n"], ref.lets_env(p, ov), {}))
            if not emu.gates_valid(tree) or not ref.par_disjoint(tree, n2):
                continue
            segs, order = emu.ref_subcircuits(tree)
        except (ref.RefError, emu.Rejected):
            continue
        nt = len(segs) > 1 or "loop" in text.split("register")[1].split("prepare_all")[0]
        yield text + "#ov=" + repr(sorted(ov.items())), {"prog": p, "text": text, "ov": ov}, nt


def check(pl):
    from jaqalpaq.emulator import run_jaqal_circuit
    from jaqalpaq.core.algorithm import fill_in_let
    from jaqalpaq.core.result import parse_jaqal_output_list
    p, text, ov = pl["prog"], pl["text"], pl["ov"]
    tree = ref.sem(p, ov)
    segs, order = emu.ref_subcircuits(tree)
    n = int(ref.num(p["n"], ref.lets_env(p, ov), {}))
    numpy.random.seed(3)
    c = parse_native(text)
    if ov:
        c = fill_in_let(c, ov)
    try:
        res = run_jaqal_circuit(c)
    except JaqalError as ex:
        return f"valid program rejected: {ex}"
    if len(res.subcircuits) != len(segs):
        return f"{len(res.subcircuits)} subcircuits, reference {len(segs)}"
    got = [r.subcircuit.index for r in res.readouts]
    if got != order:
        return f"readouts attributed to subcircuits {got}, reference visit order {order}"
    for i, r in enumerate(res.readouts):
        if r.index != i:
            return f"readout {i} has index {r.index}"
        pr = r.subcircuit.simulated_probability_by_int[r.as_int]
        if not pr > 0:
            return f"readout {i}: sampled outcome {r.as_int} has probability {pr}"
    for k, sc in enumerate(res.subcircuits):
        if sc.index != k:
            return f"subcircuit {k} numbered {sc.index}"
        rf = numpy.asarray(sc.relative_frequency_by_int)
        cnt = numpy.zeros(2 ** n)
        for r in sc.readouts:
            cnt[r.as_int] += 1
        if not numpy.array_equal(rf, cnt) or len(sc.readouts) != order.count(k):
            return f"subcircuit {k}: relative frequencies {rf.tolist()} are not the counts of its {order.count(k)} readouts"
    # history: the same backend object used for several runs, and a second program in between - every run reports
    # exactly its own subcircuits and readouts
    from jaqalpaq.emulator.unitary import UnitarySerializedEmulator
    be = UnitarySerializedEmulator()
    other = parse_native("register q[2]\nprepare_all\nX q[0]\nmeasure_all\nprepare_all\nmeasure_all\n")
    for rnd in (1, 2, 3):
        try:
            rr = run_jaqal_circuit(c, backend=be)
            if rnd == 1:
                ro = run_jaqal_circuit(other, backend=be)
                if len(ro.subcircuits) != 2 or len(ro.readouts) != 2:
                    return f"a second program run on the same backend object reports {len(ro.subcircuits)} subcircuits / {len(ro.readouts)} readouts, expected 2 / 2"
        except JaqalError as ex:
            return f"run {rnd} on a reused backend object is rejected: {ex}"
        if len(rr.subcircuits) != len(segs) or [r.subcircuit.index for r in rr.readouts] != order:
            return (f"run {rnd} on a reused backend object reports {len(rr.subcircuits)} subcircuits and attribution "
                    f"{[r.subcircuit.index for r in rr.readouts]}, reference {len(segs)} / {order}")
        for k, sc in enumerate(rr.subcircuits):
            if len(sc.readouts) != order.count(k) or numpy.asarray(sc.relative_frequency_by_int).sum() != order.count(k):
                return f"run {rnd} on a reused backend object: subcircuit {k} holds {len(sc.readouts)} readouts, expected {order.count(k)}"
    # hardware output lists
    outs_int = [(7 * i + 1) % (2 ** n) for i in range(len(order))]
    outs_str = [format(v, "b").zfill(n)[::-1] for v in outs_int]
    for outs in (outs_int, outs_str):
        try:
            r2 = parse_jaqal_output_list(c, list(outs))
        except JaqalError as ex:
            return f"parse_jaqal_output_list rejected a valid program: {ex}"
        got2 = [r.subcircuit.index for r in r2.readouts]
        if got2 != order or [r.as_int for r in r2.readouts] != outs_int:
            return f"output list parsing: attribution {got2} / values {[r.as_int for r in r2.readouts]}, reference {order} / {outs_int}"
    return None


if __name__ == "__main__":
    sys.exit(common.main("C08", sys.modules[__name__]))
