#!/usr/bin/env python3
"""C12 bounded stand-in: only well-bracketed prepare/measure programs are executed."""
import sys, os
sys.path.insert(0, os.path.dirname(os.path.dirname(os.path.abspath(__file__))))
import numpy
from bounded import common, ref, emu
from bounded.common import parse_native, JaqalError

RULE = ("random programs in which prepare_all / measure_all are ordinary gates placed anywhere (top level, nested blocks, loops with counts "
        "0..3, macro bodies) next to subcircuit blocks; references valid and parallel branches disjoint by construction/filter; oracle: the "
        "property's flat-order automaton on the reference meaning (bounded/emu.py ref_subcircuits): accept iff every gate lies between a "
        "prepare_all and the following measure_all, every measure_all has a prepare_all, no repeating loop closes a subcircuit opened before "
        "it; accepted programs must report one subcircuit per pair in flat order; non-trivial = the reference rejects, or > 1 subcircuit")
BOUND = "n <= 3 qubits, depth <= 3, <= 3 statements per block, loop counts 0..3"
BUDGET_S = {"quick": 40, "thorough": 400}


def cases(tier, rng):
    count = 6000 if tier == "quick" else 80000
    for i in range(count):
        n = rng.choice([1, 2, 3])
        g = ref.Gen(rng, n=n, use_sub=False, bracket=False, use_par=(i % 3 == 0), use_macros=(i % 2 == 0),
                    gates=("X", "H", "prepare_all", "prepare_all", "measure_all", "measure_all"), max_depth=2)
        p = g.program()
        if i % 4 == 0:
            # a subcircuit block is prepare_all; body; measure_all - also when the body itself begins with a prepare_all or
            # ends with a measure_all (the latter is ill-bracketed: two measures in a row)
            body = [("gate", "X", [("q", "q", 0)])]
            v = (i // 4) % 4
            if v == 1:
                body = [("gate", "prepare_all", [])] + body
            elif v == 2:
                body = body + [("gate", "measure_all", [])]
            elif v == 3:
                body = [("gate", "measure_all", [])] + body
            p["body"].insert(rng.randrange(len(p["body"]) + 1), ("sub", None, body))
        text = ref.to_text(p)
        try:
            ref.static_valid(p)
            tree = ref.sem(p)
            if not emu.gates_valid(tree) or not ref.par_disjoint(tree, n) or emu.zero_loop_with_bracket(tree):
                continue
        except ref.RefError:
            continue
        try:
            segs, order = emu.ref_subcircuits(tree)
            nt = len(segs) > 1
        except emu.Rejected:
            nt = True
        yield text, {"prog": p, "text": text}, nt


def loops_ok(tree):
    """loop counts are non-negative ints (range() in the emulator)"""
    return True


def check(pl):
    from jaqalpaq.emulator import run_jaqal_circuit
    p, text = pl["prog"], pl["text"]
    tree = ref.sem(p)
    try:
        segs, order = emu.ref_subcircuits(tree)
        want = len(segs)
    except emu.Rejected as ex:
        want = None
        why = str(ex)
    c = parse_native(text)
    numpy.random.seed(4)
    try:
        res = run_jaqal_circuit(c)
        got = len(res.subcircuits)
    except JaqalError as ex:
        got = None
        gmsg = str(ex)
    if want is None and got is not None:
        return f"ill-bracketed program accepted ({why}); emulator reported {got} subcircuits"
    if want is not None and got is None:
        return f"well-bracketed program rejected: {gmsg}"
    if want is not None and got != want:
        return f"{got} subcircuits reported, reference has {want}"
    if want is not None:
        n = int(ref.num(p["n"], ref.lets_env(p), {}))
        for k, (sc, gates) in enumerate(zip(res.subcircuits, segs)):
            w = numpy.abs(emu.state_of(gates, n)) ** 2
            if not numpy.allclose(numpy.asarray(sc.simulated_probability_by_int), w, atol=1e-9):
                return f"subcircuit {k} (flat order) does not contain the gates of the {k}-th prepare/measure pair"
    return None


if __name__ == "__main__":
    sys.exit(common.main("C12", sys.modules[__name__]))
