#!/usr/bin/env python3
"""C11 bounded stand-in: analyses and transformations never modify their input circuit."""
import sys, os, itertools
sys.path.insert(0, os.path.dirname(os.path.dirname(os.path.abspath(__file__))))
import numpy
from bounded import common, ref, emu
from bounded.common import parse_native, JaqalError

RULE = ("random valid bracketed programs (lets, aliases, macros called with integral-float / float / int / qubit / register arguments, loops, "
        "subcircuits; explicit native gate tables incl. tables lacking prepare/measure) x every sequence of <= 2 of the entry points "
        "{expand_macros, fill_in_let(+overrides), fill_in_map, expand_subcircuits(+caller definitions), normalize_blocks_with_unitary_timing, "
        "get_used_qubit_indices, generate_jaqal_program, run_jaqal_circuit, parse_jaqal_output_list}; a deep structural snapshot (type-exact "
        "values, ids of containers, native gate table keys, generated text, repr) of the input taken before must equal the one after, and "
        "results on the shared object must equal results on a freshly parsed copy; non-trivial = the sequence contains a transformation")
BOUND = "n <= 3, depth <= 2, sequences of length <= 2 (thorough: 3) of 9 entry points"
BUDGET_S = {"quick": 45, "thorough": 400}


def snapshot(c):
    from jaqalpaq.core import GateStatement, BlockStatement, LoopStatement, Register, NamedQubit, Constant, Parameter, Macro
    seen = {}

    def val(v):
        if isinstance(v, (int, float, str, bool, type(None))):
            return (type(v).__name__, repr(v))
        if isinstance(v, Constant):
            return ("Constant", v.name, val(v.value))
        if isinstance(v, Parameter):
            return ("Parameter", v.name, str(v.kind))
        if isinstance(v, NamedQubit):
            return ("NamedQubit", v.name, reg(v.alias_from), val(v.alias_index))
        if isinstance(v, Register):
            return reg(v)
        if isinstance(v, slice):
            return ("slice", val(v.start), val(v.stop), val(v.step))
        return ("obj", type(v).__name__, id(v))

    def reg(r):
        if isinstance(r, Parameter):
            return val(r)
        if isinstance(r, NamedQubit):
            return val(r)
        return ("Register", r.name, id(r), val(r._size), reg(r.alias_from) if r.alias_from is not None else None, val(r.alias_slice))

    def st(s):
        if isinstance(s, GateStatement):
            return ("gate", s.name, id(s.gate_def), id(s.parameters), [(k, val(v)) for k, v in s.parameters.items()])
        if isinstance(s, LoopStatement):
            return ("loop", val(s.iterations), id(s), st(s.statements))
        if isinstance(s, BlockStatement):
            return ("block", type(s).__name__, s.parallel, s.subcircuit, val(s.iterations), id(s), id(s.statements), [st(x) for x in s.statements])
        return ("?", repr(s))

    return {
        "constants": [(k, id(v), val(v)) for k, v in c.constants.items()],
        "registers": [(k, id(v), val(v)) for k, v in c.registers.items()],
        "macros": [(k, id(m), [val(p) for p in m.parameters], st(m.body)) for k, m in c.macros.items()],
        "native": [(k, id(g), type(g).__name__, [val(p) for p in g.parameters]) for k, g in c.native_gates.items()],
        "native_id": id(c.native_gates), "body": st(c.body), "usepulses": [repr(u) for u in c.usepulses],
        "repr": repr(c),
    }


def entry_points():
    from jaqalpaq.core.algorithm import expand_macros, fill_in_let, expand_subcircuits
    from jaqalpaq.core.algorithm.fill_in_map import fill_in_map
    from jaqalpaq.core.algorithm.unit_timing import normalize_blocks_with_unitary_timing
    from jaqalpaq.core.algorithm.used_qubit_visitor import get_used_qubit_indices
    from jaqalpaq.generator import generate_jaqal_program
    from jaqalpaq.emulator import run_jaqal_circuit
    from jaqalpaq.core.result import parse_jaqal_output_list
    from jaqalpaq.core.gatedef import GateDefinition

    def view(x):
        from jaqalpaq.core import Circuit
        if isinstance(x, Circuit):
            return ("circuit", generate_jaqal_program(x) if all(u.names is all for u in x.usepulses) else repr(x))
        if hasattr(x, "readouts"):
            return ("result", [numpy.round(numpy.asarray(s.simulated_probability_by_int), 10).tolist() if hasattr(s, "simulated_probability_by_int") else None for s in x.subcircuits],
                    [(r.subcircuit.index, r.as_int) for r in x.readouts])
        if isinstance(x, dict):
            return ("dict", sorted((k, sorted(v)) for k, v in x.items()))
        return ("val", repr(x))

    def run(c):
        numpy.random.seed(7)
        return run_jaqal_circuit(c)

    def outs(c):
        numpy.random.seed(7)
        n = len(run_jaqal_circuit(c).readouts)
        return parse_jaqal_output_list(c, [0] * n)

    def gen_expanded(c):
        # text generation of a RESULT of a pass (where a block may sit directly in a block of its kind): generating
        # twice gives the same text and leaves the circuit it was given alone
        e = expand_subcircuits(c)
        s0 = snapshot(e)
        t1 = generate_jaqal_program(e)
        t2 = generate_jaqal_program(e)
        if t1 != t2 or snapshot(e) != s0:
            return ("VIOLATION", "generate_jaqal_program modified the circuit it was given (the result of expand_subcircuits): a second generation differs")
        m = expand_macros(c)
        s1 = snapshot(m)
        u1 = generate_jaqal_program(m)
        if generate_jaqal_program(m) != u1 or snapshot(m) != s1:
            return ("VIOLATION", "generate_jaqal_program modified the circuit it was given (the result of expand_macros)")
        return ("val", t1)

    eps = {
        "generate_expanded": gen_expanded,
        "expand_macros": lambda c: expand_macros(c),
        "fill_in_let": lambda c: fill_in_let(c, {"k1": 2, "ang": 2.0} if "k1" in c.constants else None),
        "fill_in_map": lambda c: fill_in_map(fill_in_let(expand_macros(c))),
        "expand_subcircuits": lambda c: expand_subcircuits(c),
        "expand_subcircuits_user": lambda c: expand_subcircuits(c, prepare_def=GateDefinition("my_prep"), measure_def="my_meas"),
        "normalize": lambda c: normalize_blocks_with_unitary_timing(c),
        "used": lambda c: get_used_qubit_indices(c),
        "generate": lambda c: generate_jaqal_program(c),
        "run": run,
        "outputs": outs,
    }
    return eps, view


def cases(tier, rng):
    count = 40 if tier == "quick" else 600
    names = ["generate_expanded", "expand_macros", "fill_in_let", "fill_in_map", "expand_subcircuits", "expand_subcircuits_user", "normalize", "used", "generate", "run", "outputs"]
    for i in range(count):
        n = rng.choice([2, 3])
        g = ref.Gen(rng, n=n, use_sub=True, bracket=True, max_depth=2, gates=("X", "H", "Rx", "CX"), use_par=(i % 2 == 0))
        p = g.program()
        p.pop("usepulses", None)
        # macro calls with integral floats / ints as numeric arguments
        if i % 2 == 0:
            # a macro that hands its own parameter on to another macro (analyses that bind arguments must not write the
            # binding into the shared statement)
            p["macros"].append(("ufl", ["x"], ("seq", [("gate", "X", [("id", "x")])])))
            p["macros"].append(("uou", ["b"], ("seq", [("gate", "ufl", [("id", "b")]), ("gate", "H", [("id", "b")])])))
            p["body"].append(("sub", None, [("gate", "uou", [("q", "q", n - 1)]), ("gate", "uou", [("q", "q", 0)])]))
            p["macros"].append(("rot", ["x", "t"], ("seq", [("gate", "Rx", [("id", "x"), ("id", "t")])])))
            p["body"].insert(0, ("sub", None, [("gate", "rot", [("q", "q", 0), ("num", rng.choice([2.0, 1.0, 0.5, 3]))])]))
        if n == 3 and i % 2 == 1:
            # a parallel block whose FIRST branch is a sequential block that starts with a parallel block of gates (and
            # one whose first branch is a plain gate): shapes on which a pass that builds its result by extending a list
            # it did not allocate would write into the input
            X = lambda k: ("gate", "X", [("q", "q", k)])
            H = lambda k: ("gate", "H", [("q", "q", k)])
            nest = ("par", [("seq", [("par", [X(0), H(1)]), H(0)]), X(2)])
            nest2 = ("par", [X(2), ("seq", [("par", [H(0), X(1)]), X(0)])])
            p["body"].append(("sub", None, [nest, nest2]))
        text = ref.to_text(p)
        try:
            ref.static_valid(p)
            tree = ref.sem(p)
            if not emu.gates_valid(tree) or not ref.par_disjoint(tree, n):
                continue
            emu.ref_subcircuits(tree)
        except (ref.RefError, emu.Rejected):
            continue
        table = rng.choice(["full", "noprep"])
        seqs = [(a,) for a in names] + [tuple(rng.sample(names, 2)) for _ in range(6 if tier == "quick" else 30)]
        if tier == "thorough":
            seqs += [tuple(rng.sample(names, 3)) for _ in range(10)]
        for sq in seqs:
            yield f"{table}:{'+'.join(sq)}:{text}", {"text": text, "seq": list(sq), "table": table}, any(s not in ("used", "generate") for s in sq)


def build(text, table):
    from jaqalpaq.parser import parse_jaqal_string
    gates = common.native_gates()
    if table == "noprep":
        gates = {k: v for k, v in gates.items() if k not in ("prepare_all", "measure_all", "I_prepare_all")}
    return parse_jaqal_string(text, inject_pulses=gates, autoload_pulses=False)


def check(pl):
    eps, view = entry_points()
    text, seq, table = pl["text"], pl["seq"], pl["table"]
    if table == "noprep" and ("prepare_all" in text):
        return None
    try:
        shared = build(text, table)
    except JaqalError:
        return None
    for name in seq:
        before = snapshot(shared)
        try:
            raw = eps[name](shared)
            if isinstance(raw, tuple) and raw and raw[0] == "VIOLATION":
                return raw[1]
            r_shared = view(raw)
        except JaqalError as ex:
            r_shared = ("error", "JaqalError")
        after = snapshot(shared)
        if before != after:
            diff = [k for k in before if before[k] != after[k]]
            return f"{name} modified its input circuit (changed: {diff}) in sequence {seq}"
        fresh = build(text, table)
        try:
            rawf = eps[name](fresh)
            r_fresh = view(rawf) if not (isinstance(rawf, tuple) and rawf and rawf[0] == "VIOLATION") else rawf
        except JaqalError:
            r_fresh = ("error", "JaqalError")
        if r_shared != r_fresh:
            return f"{name} on the shared object (after {seq[:seq.index(name)]}) differs from a fresh copy"
    return None


if __name__ == "__main__":
    sys.exit(common.main("C11", sys.modules[__name__]))
