#!/usr/bin/env python3
"""C13 bounded stand-in: used-qubit analysis is exact; overlapping parallel branches are rejected."""
import sys, os
sys.path.insert(0, os.path.dirname(os.path.dirname(os.path.abspath(__file__))))
import numpy
from bounded import common, ref, emu
from bounded.common import parse_native, JaqalError

RULE = ("random programs (macros incl. macros calling macros with parameter names reused across levels, loops, nested blocks, aliases incl. "
        "alias-of-alias and strided slices, lets, busy prepare/measure gates, idle gates); oracle: reference used-qubit set of the circuit, of "
        "each top-level statement and of each macro call, computed on the reference meaning; the emulator must reject with JaqalError exactly "
        "the programs (otherwise valid) that have a parallel block with intersecting branches, and acceptance must not depend on the order of "
        "the branches; non-trivial = program has a parallel block or a macro call")
BOUND = "n <= 4 qubits, depth <= 3, <= 3 statements per block, <= 2 macros"
BUDGET_S = {"quick": 40, "thorough": 400}


def cases(tier, rng):
    for sl in ((0, 7, 2), (1, 7, 2), (0, 6, 2), (2, 7, 2), (1, 6, 1)):
        yield f"register-gate on strided alias {sl}", {"slice": sl}, True
    yield from random_cases(tier, rng)


def random_cases(tier, rng):
    count = 3000 if tier == "quick" else 40000
    for i in range(count):
        n = rng.choice([2, 3, 4])
        bracket = i % 2 == 0
        g = ref.Gen(rng, n=n, use_sub=bracket, bracket=bracket, gates=("X", "H", "Rx", "CX", "I_X"))
        p = g.program()
        if i % 3 == 0 and not bracket:
            # lexical scoping of arguments: the callee's parameter has the same NAME as an identifier used inside the
            # caller's argument (an index, a register) - the argument still denotes the caller's binding
            p["macros"].append(("cfl", ["j", "x"], ("seq", [("gate", "X", [("id", "x")]), ("gate", "Rx", [("id", "x"), ("id", "j")])])))
            p["macros"].append(("chi", ["j"], ("seq", [("gate", "cfl", [("num", 0), ("q", "q", "j")])])))
            p["macros"].append(("con", ["rr"], ("seq", [("gate", "X", [("id", "rr")])])))
            p["macros"].append(("ctw", ["rr"], ("seq", [("gate", "con", [("q", "rr", n - 1)])])))
            p["body"].append(("gate", "chi", [("num", rng.randrange(n))]))
            p["body"].append(("gate", "ctw", [("id", "q")]))
        if bracket and i % 10 == 0:
            # a busy gate (prepare_all / measure_all) inside a parallel block uses ALL qubits: it collides with any
            # gate in a sibling branch
            X = lambda k: ("gate", "X", [("q", "q", k)])
            shape = (i // 10) % 3
            if shape == 0:
                p["body"] = [("par", [("gate", "prepare_all", []), X(0)]), ("gate", "measure_all", [])]
            elif shape == 1:
                p["body"] = [("gate", "prepare_all", []), ("par", [X(n - 1), ("gate", "measure_all", [])])]
            else:
                p["body"] = [("gate", "prepare_all", []), ("par", [X(0), ("seq", [("gate", "measure_all", []), ("gate", "prepare_all", [])])]), ("gate", "measure_all", [])]
        text = ref.to_text(p)
        try:
            ref.static_valid(p)
            tree = ref.sem(p)
            if not emu.gates_valid(tree):
                continue
        except ref.RefError:
            continue
        yield text, {"prog": p, "text": text, "bracket": bracket}, ("<" in text or "macro" in text)


def reverse_par(s):
    k = s[0]
    if k == "gate":
        return s
    if k == "par":
        return ("par", [reverse_par(c) for c in reversed(s[1])])
    if k == "seq":
        return ("seq", [reverse_par(c) for c in s[1]])
    return (k, s[1], [reverse_par(c) for c in s[2]])


def regcase_check(pl):
    """a gate taking a whole register, called on (aliases of) strided aliases: exactly the aliased qubits are used"""
    from jaqalpaq.core.algorithm.used_qubit_visitor import get_used_qubit_indices
    from jaqalpaq.emulator import run_jaqal_circuit
    from jaqalpaq.core.gatedef import GateDefinition
    from jaqalpaq.core.parameter import Parameter, ParamType
    from jaqalpaq.parser import parse_jaqal_string
    a, b, c_, n = pl["slice"] + (7,)
    outer = list(range(n))[a:b:c_]
    inner = outer[1:3]
    gates = dict(common.native_gates())
    gates["Sync"] = GateDefinition("Sync", [Parameter("r", ParamType.REGISTER)])
    for alias, want in (("ev", outer), ("e2", inner)):
        free = [i for i in range(n) if i not in want]
        for other, overlap in ((free[0], False), (want[-1], True)):
            text = (f"register q[{n}]\nmap ev q[{a}:{b}:{c_}]\nmap e2 ev[1:3]\nprepare_all\nSync {alias}\n"
                    f"< Sync {alias} | X q[{other}] >\nmeasure_all\n")
            circ = parse_jaqal_string(text, inject_pulses=gates, autoload_pulses=False)
            got = get_used_qubit_indices(circ.body.statements[1])
            gs = set(got.get("q", set()))
            if gs != set(want) or any(v for k, v in got.items() if k != "q"):
                return f"used-qubit analysis of 'Sync {alias}' (ev = q[{a}:{b}:{c_}]) gives {dict(got)}, Python slicing gives q:{want}"
            numpy.random.seed(0)
            try:
                run_jaqal_circuit(circ)
                rejected = False
            except JaqalError:
                rejected = True
            if rejected != overlap:
                return (f"parallel block < Sync {alias} | X q[{other}] > with ev = q[{a}:{b}:{c_}]: "
                        f"{'rejected although the branches are disjoint' if rejected else 'accepted although the branches overlap'}")
    return None


def check(pl):
    if "slice" in pl:
        return regcase_check(pl)
    from jaqalpaq.core.algorithm.used_qubit_visitor import get_used_qubit_indices
    from jaqalpaq.emulator import run_jaqal_circuit
    p, text = pl["prog"], pl["text"]
    n = int(ref.num(p["n"], ref.lets_env(p), {}))
    tree = ref.sem(p)
    c = parse_native(text)
    want = ref.used_qubits(tree, n)
    try:
        got = get_used_qubit_indices(c)
    except JaqalError as ex:
        return f"used-qubit analysis rejected a valid program: {ex}"
    gs = set()
    for k, v in got.items():
        if k != "q" and v:
            return f"used-qubit analysis reports register {k}"
        gs |= set(v) if k == "q" else set()
    if gs != want:
        return f"used-qubit analysis of the circuit gives {sorted(gs)}, reference {sorted(want)}"
    # per top-level statement (macro calls included)
    q1 = dict(p)
    for i, s in enumerate(p["body"]):
        q1["body"] = [s]
        w = ref.used_qubits(ref.sem(q1), n)
        try:
            g1 = get_used_qubit_indices(c.body.statements[i])
        except JaqalError as ex:
            return f"used-qubit analysis of statement {i} raised {ex}"
        except AttributeError:
            continue   # busy gates outside a circuit have no all_qubits table: not part of the property
        g1s = set(g1.get("q", set()))
        if g1s != w:
            return f"used-qubit analysis of top-level statement {i} gives {sorted(g1s)}, reference {sorted(w)}"
    if not pl["bracket"]:
        return None
    # emulator: rejected exactly when some parallel block has intersecting branches
    try:
        emu.ref_subcircuits(tree)
    except emu.Rejected:
        return None
    disjoint = ref.par_disjoint(tree, n)
    numpy.random.seed(2)
    try:
        run_jaqal_circuit(c)
        accepted = True
    except JaqalError as ex:
        accepted = False
        msg = str(ex)
    if accepted != disjoint:
        return (f"program with {'disjoint' if disjoint else 'overlapping'} parallel branches was "
                f"{'accepted' if accepted else 'rejected: ' + msg}")
    # branch order independence
    p2 = dict(p)
    p2["body"] = [reverse_par(s) for s in p["body"]]
    p2["macros"] = [(nm, ps, reverse_par(b)) for nm, ps, b in p["macros"]]
    c2 = parse_native(ref.to_text(p2))
    try:
        run_jaqal_circuit(c2)
        acc2 = True
    except JaqalError:
        acc2 = False
    if acc2 != accepted:
        return "acceptance depends on the order of parallel branches"
    g2 = get_used_qubit_indices(c2)
    if set(g2.get("q", set())) != gs:
        return "used-qubit result depends on the order of parallel branches"
    return None


if __name__ == "__main__":
    sys.exit(common.main("C13", sys.modules[__name__]))
