#!/usr/bin/env python3
"""C20 bounded stand-in: circuit equality is an equivalence consistent with meaning and text."""
import sys, os, re
sys.path.insert(0, os.path.dirname(os.path.dirname(os.path.abspath(__file__))))
from bounded import common, ref
from bounded.common import parse_native, JaqalError

RULE = ("random small programs (bounded/ref.py generator incl. lets, aliases, macros, loops, subcircuits with literal/let counts, block kinds); "
        "checks: c == c, c == reparse(generate(c)) both ways, equal circuits have equal reference meaning and declarations; every single-token "
        "mutant of the text (gate name, numeric argument, qubit index, loop count, subcircuit count, block kind of a block or of a loop body, "
        "alias bound, let value) that still parses and changes the reference meaning or declarations compares unequal, in both directions; "
        "non-trivial = at least one meaning-changing mutant was compared")
BOUND = "n <= 4, depth <= 3, all single-token mutants of each program (numbers +1, names swapped, braces swapped)"
BUDGET_S = {"quick": 45, "thorough": 900}


def cases(tier, rng):
    count = 250 if tier == "quick" else 5000
    for i in range(count):
        n = rng.choice([2, 3, 4])
        g = ref.Gen(rng, n=n, use_sub=(i % 2 == 0), bracket=(i % 2 == 0), max_depth=2)
        p = g.program()
        text = ref.to_text(p)
        yield text, {"text": text}, True


def mutants(text):
    toks = re.split(r"(\s+|\[|\]|:)", text)
    for i, t in enumerate(toks):
        alts = []
        if re.fullmatch(r"-?\d+", t):
            alts = [str(int(t) + 1)]
        elif re.fullmatch(r"-?\d+\.\d+", t):
            alts = [str(float(t) + 0.5)]
        elif t in ("X", "H"):
            alts = ["H" if t == "X" else "X"]
        elif t == "{":
            alts = ["<"]
        elif t == "}":
            alts = None
        if not alts:
            continue
        for a in alts:
            m = list(toks)
            m[i] = a
            if t == "{":
                # find the matching close brace
                depth = 0
                for j in range(i, len(toks)):
                    if toks[j] == "{" or toks[j] == "<":
                        depth += 1
                    elif toks[j] == "}" or toks[j] == ">":
                        depth -= 1
                        if depth == 0:
                            if toks[j] != "}":
                                m = None
                            else:
                                m[j] = ">"
                            break
                if m is None:
                    continue
            yield "".join(m)


def decls(c):
    return ([(k, v.value) for k, v in c.constants.items()],
            [(k, repr(v)) for k, v in c.registers.items()],
            sorted(c.native_gates), [repr(u) for u in c.usepulses])


def sem_of(c):
    try:
        m = ref.circuit_sem(c)
    except ref.RefError as ex:
        m = ("invalid", str(ex))
    macros = []
    for name, mac in c.macros.items():
        macros.append((name, [p.name for p in mac.parameters]))
    return (m, macros)


def check(pl):
    from jaqalpaq.generator import generate_jaqal_program
    text = pl["text"]
    try:
        c = parse_native(text)
    except JaqalError:
        return None
    if not (c == c):
        return "circuit does not equal itself"
    g1 = generate_jaqal_program(c)
    try:
        c2 = parse_native(g1)
    except JaqalError as ex:
        return f"generated text does not parse: {ex}"
    if not (c == c2 and c2 == c):
        return "circuit does not equal the re-parse of its own generated text"
    compared = 0
    for mt in mutants(text):
        try:
            m = parse_native(mt)
        except JaqalError:
            continue
        e1, e2 = (c == m), (m == c)
        if e1 != e2:
            return f"equality is not symmetric for the mutant:\n{mt}"
        differs = sem_of(c) != sem_of(m) or decls(c) != decls(m)
        if differs:
            compared += 1
            if e1:
                return f"a single-token change that alters meaning/declarations compares equal:\n--- original\n{text}\n--- mutant\n{mt}"
        elif e1 and generate_jaqal_program(m) != g1 and sem_of(c) != sem_of(m):
            return "equal circuits with different meaning"
    return None


if __name__ == "__main__":
    sys.exit(common.main("C20", sys.modules[__name__]))
