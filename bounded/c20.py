#!/usr/bin/env python3
"""C20 bounded stand-in: circuit equality is an equivalence consistent with meaning and text."""
import sys, os, re
sys.path.insert(0, os.path.dirname(os.path.dirname(os.path.abspath(__file__))))
from bounded import common, ref
from bounded.common import parse_native, JaqalError

RULE = ("random small programs (bounded/ref.py generator incl. lets, aliases, macros, loops, subcircuits with literal/let counts, block kinds); "
        "checks: c == c, c == reparse(generate(c)) both ways, equal circuits have equal reference meaning and declarations; every single-token "
        "mutant of the text (gate name, numeric argument, qubit index, loop count, subcircuit count, block kind of a block or of a loop body, "
        "alias bound, let value) that still parses and changes the reference meaning or declarations compares unequal, in both directions; "
        "non-trivial = at least one meaning-changing mutant was compared")
BOUND = "n <= 4, depth <= 3, all single-token mutants of each program (numbers +1, names swapped, braces swapped)"
BUDGET_S = {"quick": 45, "thorough": 400}


def cases(tier, rng):
    count = 250 if tier == "quick" else 5000
    for i in range(count):
        n = rng.choice([2, 3, 4])
        g = ref.Gen(rng, n=n, use_sub=(i % 2 == 0), bracket=(i % 2 == 0), max_depth=2)
        p = g.program()
        if i % 3 == 0:
            # boundary counts written out: 0 and 1 differ in meaning, and 1 written explicitly equals the default
            p["body"].append(("sub", rng.choice([0, 1]), [("gate", "X", [("q", "q", 0)])]))
            p["body"].append(("loop", rng.choice([0, 1]), [("sub", None, [("gate", "H", [("q", "q", 0)])])]))
        text = ref.to_text(p)
        yield text, {"text": text}, True


def mutants(text):
    toks = re.split(r"(\s+|\[|\]|:)", text)
    for i, t in enumerate(toks):
        alts = []
        if re.fullmatch(r"-?\d+", t):
            alts = [str(int(t) + 1)] + ([str(int(t) - 1)] if int(t) > 0 else [])
        elif re.fullmatch(r"-?\d+\.\d+", t):
            # a visibly different number, and one that differs in the 10th significant digit only
            alts = [str(float(t) + 0.5), repr(float(t) * (1 + 3e-10) if float(t) else 3e-10)]
        elif t in ("X", "H"):
            alts = ["H" if t == "X" else "X"]
        elif t == "{":
            alts = ["<"]
        elif t == "}":
            alts = None
        if not alts:
            continue
        for a in alts:
            m = list(toks)
            m[i] = a
            if t == "{":
                # find the matching close brace
                depth = 0
                for j in range(i, len(toks)):
                    if toks[j] == "{" or toks[j] == "<":
                        depth += 1
                    elif toks[j] == "}" or toks[j] == ">":
                        depth -= 1
                        if depth == 0:
                            if toks[j] != "}":
                                m = None
                            else:
                                m[j] = ">"
                            break
                if m is None:
                    continue
            yield "".join(m)


def sub_counts_text(text, lets):
    """the subcircuit counts as WRITTEN (an independent reading of the text, not of the library's objects)"""
    out = []
    for m in re.finditer(r"subcircuit\s+(?:(-?\d+)|([A-Za-z_]\w*))?\s*\{", text):
        if m.group(1) is not None:
            out.append(int(m.group(1)))
        elif m.group(2) is not None:
            out.append(lets.get(m.group(2), m.group(2)))
        else:
            out.append(1)
    return out


def sub_counts_circ(c):
    from jaqalpaq.core import BlockStatement, LoopStatement
    out = []

    def walk(b):
        for st in b.statements:
            if isinstance(st, BlockStatement):
                if st.subcircuit:
                    it = st.iterations
                    out.append(getattr(it, "value", it) if not isinstance(it, int) else it)
                walk(st)
            elif isinstance(st, LoopStatement):
                walk_loop(st)

    def walk_loop(lp):
        body = lp.statements
        if body.subcircuit:
            it = body.iterations
            out.append(getattr(it, "value", it) if not isinstance(it, int) else it)
        walk(body)
    for mac in c.macros.values():
        walk(mac.body) if not mac.body.subcircuit else walk(type("B", (), {"statements": [mac.body]})())
    walk(c.body)
    return out


def decls(c):
    return ([(k, v.value) for k, v in c.constants.items()],
            [(k, repr(v)) for k, v in c.registers.items()],
            sorted(c.native_gates), [repr(u) for u in c.usepulses])


def sem_of(c):
    try:
        m = ref.circuit_sem(c)
    except ref.RefError as ex:
        m = ("invalid", str(ex))
    macros = []
    for name, mac in c.macros.items():
        macros.append((name, [p.name for p in mac.parameters]))
    return (m, macros)


def check(pl):
    from jaqalpaq.generator import generate_jaqal_program
    text = pl["text"]
    try:
        c = parse_native(text)
    except JaqalError:
        return None
    if not (c == c):
        return "circuit does not equal itself"
    lets = {k: v.value for k, v in c.constants.items()}
    if sorted(map(str, sub_counts_text(text, lets))) != sorted(map(str, sub_counts_circ(c))):
        return f"the circuit's subcircuit counts {sub_counts_circ(c)} are not the ones written in the text {sub_counts_text(text, lets)}"
    g1 = generate_jaqal_program(c)
    try:
        c2 = parse_native(g1)
    except JaqalError as ex:
        return f"generated text does not parse: {ex}"
    if not (c == c2 and c2 == c):
        return "circuit does not equal the re-parse of its own generated text"
    compared = 0
    for mt in mutants(text):
        try:
            m = parse_native(mt)
        except JaqalError:
            continue
        e1, e2 = (c == m), (m == c)
        if e1 != e2:
            return f"equality is not symmetric for the mutant:\n{mt}"
        differs = sem_of(c) != sem_of(m) or decls(c) != decls(m)
        if differs:
            compared += 1
            if e1:
                return f"a single-token change that alters meaning/declarations compares equal:\n--- original\n{text}\n--- mutant\n{mt}"
        elif e1 and generate_jaqal_program(m) != g1 and sem_of(c) != sem_of(m):
            return "equal circuits with different meaning"
    return None


if __name__ == "__main__":
    sys.exit(common.main("C20", sys.modules[__name__]))
