"""Small-scope program generator and an independent reference semantics for Jaqal programs.

Programs are plain Python data (not jaqalpaq objects):
  prog = {"lets": [(name, value)], "n": int, "maps": [(name, src, None | ("idx", i) | ("slice", start, stop, step))],
          "macros": [(name, [params], block)], "body": [stmt]}
  stmt = ("gate", name, [arg]) | ("seq", [stmt]) | ("par", [stmt]) | ("loop", count, [stmt]) | ("sub", count|None, [stmt])
  arg  = ("q", regname, index) | ("num", value) | ("id", name)      index/count/value: int | float | str (let or parameter name)
The reference semantics below never imports jaqalpaq."""
import itertools
import math

NATIVE_1Q = ["X", "H"]
NATIVE = {"X": 1, "H": 1, "Rx": 1, "CX": 2, "CCX": 3, "I_X": 1, "I_Rx": 1, "I_CX": 2, "prepare_all": 0, "measure_all": 0}


# ---------------------------------------------------------------------------- text
def fmt_val(v):
    return str(v)


def arg_text(a):
    k = a[0]
    if k == "q":
        return f"{a[1]}[{fmt_val(a[2])}]"
    if k == "num":
        return fmt_val(a[1])
    return a[1]


def stmt_text(s, ind=0):
    pad = "\t" * ind
    k = s[0]
    if k == "gate":
        return pad + " ".join([s[1]] + [arg_text(a) for a in s[2]]) + "\n"
    if k == "seq":
        return pad + "{\n" + "".join(stmt_text(c, ind + 1) for c in s[1]) + pad + "}\n"
    if k == "par":
        return pad + "<\n" + "".join(stmt_text(c, ind + 1) for c in s[1]) + pad + ">\n"
    if k == "loop":
        if len(s) > 3 and s[3] == "par":
            # a loop whose body IS a parallel block:  loop n < a | b >
            return pad + f"loop {fmt_val(s[1])} <\n" + "".join(stmt_text(c, ind + 1) for c in s[2][0][1]) + pad + ">\n"
        return pad + f"loop {fmt_val(s[1])} {{\n" + "".join(stmt_text(c, ind + 1) for c in s[2]) + pad + "}\n"
    if k == "sub":
        cnt = "" if s[1] is None else f"{fmt_val(s[1])} "
        return pad + f"subcircuit {cnt}{{\n" + "".join(stmt_text(c, ind + 1) for c in s[2]) + pad + "}\n"
    raise ValueError(k)


def to_text(p):
    out = []
    for u in p.get("usepulses", []):
        out.append(f"from {u} usepulses *\n")
    for n, v in p["lets"]:
        out.append(f"let {n} {fmt_val(v)}\n")
    out.append(f"register q[{fmt_val(p['n'])}]\n")
    for name, src, sel in p["maps"]:
        if sel is None:
            out.append(f"map {name} {src}\n")
        elif sel[0] == "idx":
            out.append(f"map {name} {src}[{fmt_val(sel[1])}]\n")
        else:
            _, a, b, c = sel
            ta = "" if a is None else fmt_val(a)       # an omitted bound is written as nothing:  q[:2]  q[1:]  q[:]
            tb = "" if b is None else fmt_val(b)
            if c is None:
                out.append(f"map {name} {src}[{ta}:{tb}]\n")
            else:
                out.append(f"map {name} {src}[{ta}:{tb}:{fmt_val(c)}]\n")
    for name, params, block in p["macros"]:
        out.append(f"macro {name} {' '.join(params)} " + stmt_text(block, 0))
    for s in p["body"]:
        out.append(stmt_text(s, 0))
    return "".join(out)


# ---------------------------------------------------------------------------- reference semantics
class RefError(Exception):
    pass


def lets_env(p, overrides=None):
    env = {n: v for n, v in p["lets"]}
    for k, v in (overrides or {}).items():
        if k in env:
            env[k] = v
    return env


def num(v, L, E):
    """numeric value of a literal / let / bound parameter"""
    if isinstance(v, str):
        if v in E:
            x = E[v]
            if isinstance(x, tuple) and x[0] == "numv":
                return x[1]
            raise RefError(f"{v} is not numeric")
        if v in L:
            return L[v]
        raise RefError(f"unbound {v}")
    return v


def registers(p, L):
    """name -> list of physical indices (or single int for a qubit alias)"""
    n = num(p["n"], L, {})
    regs = {"q": list(range(int(n)))}
    for name, src, sel in p["maps"]:
        base = regs[src]
        if sel is None:
            regs[name] = base
        elif sel[0] == "idx":
            i = num(sel[1], L, {})
            if not (0 <= i < len(base)):
                raise RefError("index out of range")
            regs[name] = base[int(i)]
        else:
            a = num(sel[1], L, {}) if sel[1] is not None else 0
            b = num(sel[2], L, {}) if sel[2] is not None else len(base)
            c = num(sel[3], L, {}) if sel[3] is not None else 1
            if b > len(base) or a < 0 or c <= 0:
                raise RefError("slice outside source")
            regs[name] = base[int(a):int(b):int(c)]
    return regs


def arg_val(a, regs, L, E):
    """-> ("qubit", phys) | ("numv", x) | ("reg", [phys...])"""
    k = a[0]
    if k == "num":
        return ("numv", num(a[1], L, E))
    if k == "id":
        name = a[1]
        if name in E:
            return E[name]
        if name in L:
            return ("numv", L[name])
        if name in regs:
            r = regs[name]
            return ("qubit", r) if isinstance(r, int) else ("reg", r)
        raise RefError(f"unbound {name}")
    if k == "q":
        rn, idx = a[1], a[2]
        if rn in E:
            r = E[rn]
            if r[0] != "reg":
                raise RefError("indexing a non-register")
            base = r[1]
        elif rn in regs and not isinstance(regs[rn], int):
            base = regs[rn]
        else:
            raise RefError(f"cannot index {rn}")
        i = num(idx, L, E)
        if isinstance(i, float):
            if i != int(i):
                raise RefError("non-integral index")
            i = int(i)
        if not (0 <= i < len(base)):
            raise RefError("index out of range")
        return ("qubit", base[i])
    raise ValueError(k)


def sem(p, overrides=None, expand_sub=False):
    """Gate-level meaning: nested tuples
       ("gate", name, (argvals...)) | ("seq", [..]) | ("par", [..]) | ("loop", n, [..]) | ("sub", n, [..])
    with macros expanded by call semantics, lets/overrides applied, aliases resolved, and series/parallel
    composition flattened (a seq directly inside a seq, or a par inside a par, is spliced)."""
    L = lets_env(p, overrides)
    regs = registers(p, L)
    macros = {m[0]: m for m in p["macros"]}

    def ev(s, E):
        k = s[0]
        if k == "gate":
            name = s[1]
            if name in macros:
                _, params, block = macros[name]
                if len(params) != len(s[2]):
                    raise RefError("arity")
                E2 = {pn: arg_val(a, regs, L, E) for pn, a in zip(params, s[2])}
                return ev(block, E2)
            return ("gate", name, tuple(arg_val(a, regs, L, E) for a in s[2]))
        if k in ("seq", "par"):
            return (k, [ev(c, E) for c in s[1]])
        if k == "loop":
            return ("loop", num(s[1], L, E), [ev(c, E) for c in s[2]])
        if k == "sub":
            cnt = 1 if s[1] is None else num(s[1], L, E)
            body = [ev(c, E) for c in s[2]]
            if expand_sub:
                return ("seq", [("gate", "prepare_all", ())] + body + [("gate", "measure_all", ())])
            return ("sub", cnt, body)
        raise ValueError(k)

    return normalise(("seq", [ev(s, {}) for s in p["body"]]))


def normalise(t):
    k = t[0]
    if k == "gate":
        return ("gate", t[1], tuple(_nv(a) for a in t[2]))
    if k in ("seq", "par", "seq!"):
        kind = "seq" if k == "seq!" else k
        out = []
        for c in t[1]:
            c = normalise(c)
            if c[0] == kind and not (len(c) > 2 and c[2] == "keep"):
                out.extend(c[1])
            else:
                out.append(c)
        return (kind, out) if k != "seq!" else ("seq", out, "keep")
    if k == "loop":
        body = normalise(("seq", t[2]))
        return ("loop", _n(t[1]), body[1])
    if k == "sub":
        body = normalise(("seq", t[2]))
        return ("sub", _n(t[1]), body[1])
    raise ValueError(k)


def _n(x):
    if isinstance(x, float) and x == int(x):
        return int(x)
    return x


def _nv(a):
    if a[0] == "numv":
        return ("numv", float(a[1]))
    if a[0] == "reg":
        return ("reg", tuple(a[1]))
    return a


def strip_keep(t):
    k = t[0]
    if k == "gate":
        return t
    if k in ("seq", "par"):
        return (k, [strip_keep(c) for c in t[1]])
    return (k, t[1], [strip_keep(c) for c in t[2]])


# ---------------------------------------------------------------------------- execution (flat order)
def flat_gates(t):
    """Execution order of a normalised meaning tree with loops unrolled (parallel branches in textual order)."""
    k = t[0]
    if k == "gate":
        yield t
    elif k in ("seq", "par"):
        for c in t[1]:
            yield from flat_gates(c)
    elif k == "loop":
        for _ in range(int(t[1])):
            for c in t[2]:
                yield from flat_gates(c)
    elif k == "sub":
        yield ("gate", "prepare_all", ())
        for c in t[2]:
            yield from flat_gates(c)
        yield ("gate", "measure_all", ())


def visits(t):
    """List of executed subcircuit visits: each a list of gates between a prepare_all and its measure_all."""
    out = []
    cur = None
    for g in flat_gates(t):
        if g[1] == "prepare_all":
            cur = []
        elif g[1] == "measure_all":
            if cur is None:
                raise RefError("measure without prepare")
            out.append(cur)
            cur = None
        else:
            if cur is None:
                raise RefError("gate outside prepare/measure")
            cur.append(g)
    return out


def used_qubits(t, n):
    """set of physical qubit indices some gate reachable from t acts on"""
    k = t[0]
    if k == "gate":
        if t[1] in ("prepare_all", "measure_all"):
            return set(range(n))
        if t[1].startswith("I_"):
            return set()
        s = set()
        for a in t[2]:
            if a[0] == "qubit":
                s.add(a[1])
            elif a[0] == "reg":
                s |= set(a[1])
        return s
    s = set()
    for c in (t[1] if k in ("seq", "par") else t[2]):
        s |= used_qubits(c, n)
    return s      # an unexpanded subcircuit block contributes only its explicit gates


# ---------------------------------------------------------------------------- jaqalpaq circuit -> same normal form
def circuit_sem(circ, overrides=None):
    """Meaning of a jaqalpaq Circuit in the same normal form, reading only public attributes.
    Alias arithmetic is re-done here (not with resolve_qubit)."""
    from jaqalpaq.core import Constant, Parameter, NamedQubit, Register, GateStatement, BlockStatement, LoopStatement, Macro
    ov = overrides or {}

    def cnum(v, E):
        if isinstance(v, Constant):
            if v.name in ov:
                return ov[v.name]
            return cnum(v.value, E)
        if isinstance(v, Parameter):
            if v.name in E:
                x = E[v.name]
                if x[0] == "numv":
                    return x[1]
                raise RefError("param not numeric")
            raise RefError(f"unbound parameter {v.name}")
        return v

    def reg_list(r, E):
        if isinstance(r, Parameter):
            x = E.get(r.name)
            if x is None or x[0] != "reg":
                raise RefError("register parameter unbound")
            return list(x[1])
        if r.fundamental:
            return list(range(int(cnum(r.size, E))))
        base = reg_list(r.alias_from, E)
        sl = r.alias_slice
        if sl is None:
            return base
        a = cnum(sl.start, E) if sl.start is not None else 0
        b = cnum(sl.stop, E) if sl.stop is not None else len(base)
        c = cnum(sl.step, E) if sl.step is not None else 1
        return base[int(a):int(b):int(c)]

    def aval(v, E):
        if isinstance(v, NamedQubit):
            base = reg_list(v.alias_from, E)
            i = cnum(v.alias_index, E)
            if isinstance(i, float) and i == int(i):
                i = int(i)
            if not (isinstance(i, int) and 0 <= i < len(base)):
                raise RefError("index out of range")
            return ("qubit", base[i])
        if isinstance(v, Register):
            return ("reg", tuple(reg_list(v, E)))
        if isinstance(v, Parameter):
            if v.name in E:
                return E[v.name]
            raise RefError(f"unbound parameter {v.name}")
        if isinstance(v, Constant):
            return ("numv", float(cnum(v, E)))
        return ("numv", float(v))

    def ev(s, E):
        if isinstance(s, GateStatement):
            gd = s.gate_def
            if isinstance(gd, Macro):
                if len(gd.parameters) != len(s.parameters):
                    raise RefError("arity")
                E2 = {p.name: aval(a, E) for p, a in zip(gd.parameters, s.parameters.values())}
                return ev(gd.body, E2)
            return ("gate", s.name, tuple(aval(a, E) for a in s.parameters.values()))
        if isinstance(s, LoopStatement):
            return ("loop", cnum(s.iterations, E), [ev(s.statements, E)])     # the body keeps its block kind
        if isinstance(s, BlockStatement):
            if s.subcircuit:
                return ("sub", cnum(s.iterations, E), [ev(c, E) for c in s.statements])
            return ("par" if s.parallel else "seq", [ev(c, E) for c in s.statements])
        raise RefError(f"unknown statement {type(s).__name__}")

    try:
        return normalise(("seq", [ev(s, {}) for s in circ.body.statements]))
    except RefError:
        raise
    except (TypeError, ValueError, AttributeError, KeyError, IndexError) as ex:
        # an object where the IR allows none (a macro parameter left in an expanded circuit, a count that is not a
        # number ...): the circuit has no meaning - a finding for the caller, not a crash of the oracle
        raise RefError(f"ill-formed circuit: {type(ex).__name__}: {ex}")


# ---------------------------------------------------------------------------- generator
class Gen:
    def __init__(self, rng, n=3, use_lets=True, use_maps=True, use_macros=True, use_loops=True, use_par=True, use_sub=False,
                 bracket=False, gates=("X", "H", "Rx", "CX"), max_depth=3, max_stmts=3):
        self.r = rng
        self.n = n
        self.o = dict(use_lets=use_lets, use_maps=use_maps, use_macros=use_macros, use_loops=use_loops, use_par=use_par,
                      use_sub=use_sub, bracket=bracket)
        self.gates = gates
        self.max_depth = max_depth
        self.max_stmts = max_stmts
        self.empty_blocks = False

    def program(self):
        r = self.r
        p = {"lets": [], "n": self.n, "maps": [], "macros": [], "body": []}
        if r.random() < 0.25:
            p["usepulses"] = ["foo.bar"] if r.random() < 0.7 else ["foo.bar", ".rel"]
        if self.o["use_lets"]:
            p["lets"] = [("k0", r.choice([0, 1])), ("k1", r.choice([1, 2])), ("ang", r.choice([0.5, 1.25, 3.0]))]
            if r.random() < 0.3:
                p["lets"].append(("nn", self.n))
                p["n"] = "nn"
        self.regs = {"q": list(range(self.n))}
        if self.o["use_maps"]:
            for k in range(r.choice([0, 1, 2])):
                src = r.choice([x for x, v in self.regs.items() if isinstance(v, list) and len(v) >= 1])
                base = self.regs[src]
                kind = r.choice(["whole", "slice", "slice", "idx"])
                name = f"z{k}" if k == 0 else f"a{k}"      # a later alias may sort BEFORE the alias it is derived from
                if kind == "whole":
                    p["maps"].append((name, src, None))
                    self.regs[name] = base
                elif kind == "idx":
                    i = r.randrange(len(base))
                    lets_now = dict(p["lets"])
                    si = "k0" if (self.o["use_lets"] and lets_now.get("k0") == i and r.random() < 0.6) else i
                    p["maps"].append((name, src, ("idx", si)))
                    self.regs[name] = base[i]
                else:
                    a = r.randrange(len(base))
                    c = r.choice([1, 1, 2])
                    b = r.randrange(a + 1, len(base) + 1)
                    sa = "k0" if (self.o["use_lets"] and a == dict(p["lets"]).get("k0")) and r.random() < 0.5 else a
                    lets_now = dict(p["lets"])
                    sc = c if (c != 1 or r.random() < 0.5) else None
                    if self.o["use_lets"] and sc is not None and r.random() < 0.4:
                        # a let-valued stride (also one whose value is 1) and a let-valued stop
                        for nm in ("k1", "k0"):
                            if lets_now.get(nm) == c:
                                sc = nm
                                break
                    sb = b
                    if self.o["use_lets"] and r.random() < 0.3:
                        for nm in ("k1", "nn"):
                            if lets_now.get(nm) == b:
                                sb = nm
                                break
                    if a == 0 and sa == 0 and r.random() < 0.4:
                        sa = None                  # start left out
                    if b == len(base) and sb == b and r.random() < 0.3:
                        sb = None                  # stop left out
                    p["maps"].append((name, src, ("slice", sa, sb, sc)))
                    self.regs[name] = base[a:b:c]
        self.lets = dict(p["lets"])
        self.macro_names = []
        if self.o["use_macros"]:
            for k in range(r.choice([0, 1, 2])):
                name = f"m{k}"
                kind = r.choice(["qubit", "qubit_num", "reg_idx", "none"])
                if kind == "none":
                    params = []
                    body = self.block(1, params={}, in_macro=True)
                elif kind == "qubit":
                    params = ["x"]
                    body = self.block(1, params={"x": "qubit"}, in_macro=True)
                elif kind == "qubit_num":
                    params = ["x", "t"]
                    body = self.block(1, params={"x": "qubit", "t": "num"}, in_macro=True)
                else:
                    params = ["rr", "j"]
                    body = self.block(1, params={"rr": "reg", "j": "idx"}, in_macro=True)
                p["macros"].append((name, params, body))
                self.macro_names.append((name, kind))
        body = []
        if self.o["bracket"]:
            body = self.segments(0)
        else:
            body = self.stmts(0, {}, False, top=True)
        p["body"] = body
        return p

    def segments(self, depth):
        """prepare/measure pairs and subcircuit blocks, possibly nested in loops (two deep)"""
        r = self.r
        out = []
        cnts = [0, 1, 2, "k1"] if self.o["use_lets"] else [0, 1, 2]
        for _ in range(r.choice([1, 1, 2])):
            x = r.random()
            if depth < 2 and self.o["use_loops"] and x < 0.35:
                out.append(("loop", r.choice(cnts), self.segments(depth + 1)))
            elif self.o["use_sub"] and x < 0.7:
                out.append(("sub", r.choice([None, 2, "k1"]) if self.o["use_lets"] else r.choice([None, 2]), self.stmts(1, {}, False, top=False)))
            else:
                out.extend([("gate", "prepare_all", [])] + self.stmts(1, {}, False, top=False) + [("gate", "measure_all", [])])
        return out

    def qubit_arg(self, params):
        r = self.r
        cands = []
        for name, v in self.regs.items():
            if isinstance(v, int):
                cands.append(("id", name))
            else:
                for i in range(len(v)):
                    cands.append(("q", name, i))
                    if self.o["use_lets"] and i == self.lets.get("k0") and "k0" not in params:
                        cands.append(("q", name, "k0"))
        for pn, kind in params.items():
            if kind == "qubit":
                cands.append(("id", pn))
                cands.append(("id", pn))
        if "rr" in params:
            cands.append(("q", "rr", "j"))
            cands.append(("q", "rr", "j"))
        return r.choice(cands)

    def num_arg(self, params):
        r = self.r
        c = [("num", 0.25), ("num", 1.5), ("num", 2), ("num", 0.1 + 0.2), ("num", 1.5707963267948966)]     # incl. floats that need 17 digits
        if self.o["use_lets"]:
            c.append(("id", "ang"))
        if "t" in params:
            c += [("id", "t"), ("id", "t")]
        return r.choice(c)

    def gate(self, params, in_macro, used=None):
        r = self.r
        for _ in range(20):
            choices = list(self.gates)
            if self.macro_names:
                choices += ["@macro"] * 2
            g = r.choice(choices)
            if g == "@macro":
                name, kind = r.choice(self.macro_names)
                if kind == "none":
                    args = []
                elif kind == "qubit":
                    args = [self.qubit_arg(params)]
                elif kind == "qubit_num":
                    args = [self.qubit_arg(params), self.num_arg(params)]
                else:
                    regs = [x for x, v in self.regs.items() if isinstance(v, list)]
                    rn = r.choice(regs)
                    args = [("id", rn), ("num", r.randrange(len(self.regs[rn])))]
                return ("gate", name, args)
            nq = NATIVE[g]
            if nq > self.n:
                continue
            qs = []
            tries = 0
            while len(qs) < nq and tries < 30:
                tries += 1
                a = self.qubit_arg(params)
                if a not in qs:
                    qs.append(a)
            if len(qs) < nq:
                continue
            args = list(qs)
            if g in ("Rx", "I_Rx"):
                args.append(self.num_arg(params))
            return ("gate", g, args)
        return ("gate", "X", [("q", "q", 0)])

    def stmts(self, depth, params, in_macro, top=False, kind="seq"):
        r = self.r
        out = []
        for _ in range(r.randrange(1, self.max_stmts + 1)):
            x = r.random()
            if self.empty_blocks and depth >= 1 and r.random() < 0.08:
                out.append(("par", []) if kind == "seq" else ("seq", []))
                continue
            if depth < self.max_depth and x < 0.2 and self.o["use_loops"] and kind == "seq":
                cnt = r.choice([0, 1, 2, 3]) if not self.o["use_lets"] else r.choice([0, 1, 2, "k1"])
                if self.o["use_par"] and depth + 1 < self.max_depth and r.random() < 0.2:
                    out.append(("loop", cnt, [("par", self.stmts(depth + 2, params, in_macro, kind="par"))], "par"))
                else:
                    out.append(("loop", cnt, self.stmts(depth + 1, params, in_macro)))
            elif depth < self.max_depth and x < 0.4 and self.o["use_par"] and kind == "seq":
                out.append(("par", self.stmts(depth + 1, params, in_macro, kind="par")))
            elif depth < self.max_depth and x < 0.4 and kind == "par":
                out.append(("seq", self.stmts(depth + 1, params, in_macro, kind="seq")))
            else:
                out.append(self.gate(params, in_macro))
        return out

    def block(self, depth, params, in_macro):
        if self.r.random() < 0.25 and self.o["use_par"]:
            return ("par", self.stmts(depth, params, in_macro, kind="par"))
        return ("seq", self.stmts(depth, params, in_macro))


def par_disjoint(t, n):
    """no parallel block has two branches with intersecting used-qubit sets"""
    k = t[0]
    if k == "gate":
        return True
    kids = t[1] if k in ("seq", "par") else t[2]
    if not all(par_disjoint(c, n) for c in kids):
        return False
    if k == "par":
        seen = set()
        for c in kids:
            u = used_qubits(c, n)
            if seen & u:
                return False
            seen |= u
    return True


def static_valid(p, overrides=None):
    """Every literal / let-valued index into a declared register or alias is in range, in the main body
    and in every macro body (called or not).  Raises RefError otherwise."""
    L = lets_env(p, overrides)
    regs = registers(p, L)

    def walk(s, params):
        if s[0] == "gate":
            for a in s[2]:
                if a[0] == "q" and a[1] not in params and not (isinstance(a[2], str) and a[2] in params):
                    if a[1] not in regs or isinstance(regs[a[1]], int):
                        raise RefError("bad register")
                    i = num(a[2], L, {})
                    if isinstance(i, float) and i != int(i):
                        raise RefError("non-integral index")
                    if not (0 <= i < len(regs[a[1]])):
                        raise RefError("index out of range")
            return
        for c in (s[1] if s[0] in ("seq", "par") else s[2]):
            walk(c, params)

    for s in p["body"]:
        walk(s, set())
    for name, params, block in p["macros"]:
        walk(block, set(params))
    return True
