"""Shared machinery of the bounded stand-ins (run under /venv/bin/python on the real jaqalpaq).

Every stand-in is labelled *bounded*: it is never counted in obligations/discharged.
A module defines  RULE, BOUND, cases(tier, rng) -> iterable of (key, payload, nontrivial: bool)
and check(payload) -> None | str (what was violated).  main() runs it, matches violations with the
bounded entries of known_findings.json (by `match` substring of the case key / message),
writes replay files and prints one JSON line."""
import argparse
import hashlib
import json
import os
import random
import re
import sys
import time
import traceback
import warnings

ROOT = os.path.dirname(os.path.dirname(os.path.abspath(__file__)))
if ROOT not in sys.path:
    sys.path.insert(0, ROOT)
warnings.filterwarnings("ignore")

import numpy  # noqa: E402
from jaqalpaq.core.gatedef import GateDefinition, BusyGateDefinition, add_idle_gates  # noqa: E402
from jaqalpaq.core.parameter import Parameter, ParamType  # noqa: E402
from jaqalpaq.parser import parse_jaqal_string  # noqa: E402
from jaqalpaq.error import JaqalError  # noqa: E402


# ---- a small native gate set with ideal unitaries ---------------------------------------------
def _X():
    return numpy.array([[0, 1], [1, 0]], dtype=complex)


def _H():
    return numpy.array([[1, 1], [1, -1]], dtype=complex) / numpy.sqrt(2)


def _Rx(theta):
    # a rotation about x followed by a phase on |1>: unitary and NOT symmetric (U != U^T), so that a transposed
    # matrix access in the emulator is visible
    c, s = numpy.cos(theta / 2), numpy.sin(theta / 2)
    return numpy.array([[c, -1j * s], [s, 1j * c]], dtype=complex)


def _CX():
    # control = first qubit argument = bit 0 of the matrix index (little endian), target = bit 1
    m = numpy.zeros((4, 4), dtype=complex)
    for c in (0, 1):
        for t in (0, 1):
            src = c | (t << 1)
            dst = c | ((t ^ c) << 1)
            m[dst, src] = 1j if (c and not t) else 1      # a phase on one branch: the matrix is not symmetric
    return m


def _CCX():
    m = numpy.zeros((8, 8), dtype=complex)
    for i in range(8):
        a, b, t = i & 1, (i >> 1) & 1, (i >> 2) & 1
        m[a | (b << 1) | ((t ^ (a & b)) << 2), i] = 1
    return m


def native_gates(idle=True):
    q = lambda n: Parameter(n, ParamType.QUBIT)
    g = {
        "prepare_all": BusyGateDefinition("prepare_all"),
        "measure_all": BusyGateDefinition("measure_all"),
        "X": GateDefinition("X", [q("q")], ideal_unitary=_X),
        "H": GateDefinition("H", [q("q")], ideal_unitary=_H),
        "Rx": GateDefinition("Rx", [q("q"), Parameter("theta", ParamType.FLOAT)], ideal_unitary=_Rx),
        "CX": GateDefinition("CX", [q("c"), q("t")], ideal_unitary=_CX),
        "CCX": GateDefinition("CCX", [q("a"), q("b"), q("t")], ideal_unitary=_CCX),
    }
    if idle:
        g = add_idle_gates(g)
    return g


def parse(text, **kw):
    kw.setdefault("autoload_pulses", False)
    return parse_jaqal_string(text, **kw)


def parse_native(text, **kw):
    return parse_jaqal_string(text, inject_pulses=native_gates(), autoload_pulses=False, **kw)


# ---- dense reference emulator -------------------------------------------------------------------
def dense_apply(vec, n, mat, qubits):
    """U acting on `qubits` (gate index bit j <-> qubits[j]; state bit i <-> register qubit i)."""
    m = len(qubits)
    out = numpy.zeros_like(vec)
    for i in range(2 ** n):
        row = 0
        for j, qb in enumerate(qubits):
            if (i >> qb) & 1:
                row |= 1 << j
        base = i
        for qb in qubits:
            base &= ~(1 << qb)
        for col in range(2 ** m):
            src = base
            for j, qb in enumerate(qubits):
                if (col >> j) & 1:
                    src |= 1 << qb
            out[i] += mat[row, col] * vec[src]
    return out


# ---- driver ----------------------------------------------------------------------------------------
def load_bounded_findings(prop):
    p = os.path.join(ROOT, "known_findings.json")
    if not os.path.exists(p):
        return []
    return [f for f in json.load(open(p)).get("findings", []) if f.get("status") == "open" and f.get("kind") == "bounded" and f["property"] == prop]


class _CaseTimeout(BaseException):
    pass


def _on_alarm(signum, frame):
    raise _CaseTimeout()


import signal  # noqa: E402
signal.signal(signal.SIGALRM, _on_alarm)


def main(prop, module):
    ap = argparse.ArgumentParser()
    ap.add_argument("--tier", default="quick")
    ap.add_argument("--seed", type=int, default=0)
    ap.add_argument("--replay")
    a = ap.parse_args()
    if a.replay:
        rf = json.load(open(a.replay))
        msg = module.check(rf["payload"])
        print("VIOLATION reproduced: " + msg if msg else "no violation on the current tree")
        return 1 if msg else 0
    rng = random.Random(a.seed)
    t0 = time.time()
    findings = load_bounded_findings(prop)
    evaluations = 0
    distinct = set()
    nontrivial = set()
    violations = []
    samples = []
    errors = []
    budget = module.BUDGET_S.get(a.tier, 60) if hasattr(module, "BUDGET_S") else (45 if a.tier == "quick" else 600)
    exhausted = True
    for key, payload, nt in module.cases(a.tier, rng):
        if time.time() - t0 > budget:
            exhausted = False
            break
        evaluations += 1
        distinct.add(key)
        if nt:
            nontrivial.add(key)
        if len(samples) < 5 and nt:
            samples.append({"case": key, "payload": payload})
        signal.alarm(getattr(module, "CASE_TIMEOUT_S", 5))
        try:
            msg = module.check(payload)
        except _CaseTimeout:
            msg = f"did not terminate within {getattr(module, 'CASE_TIMEOUT_S', 5)} s"
        except Exception as ex:
            msg = None
            tb = traceback.extract_tb(ex.__traceback__)
            if type(ex).__name__ == "RefError":
                # the reference reader could not give the library's RESULT a meaning (checks read inputs under their
                # own try): the circuit the library produced is ill-formed
                msg = f"the circuit produced by the library has no meaning: {ex}"
                tb = []
            lib = [f for f in tb if "/jaqalpaq/" in f.filename]
            if msg:
                pass
            elif lib and (tb[-1] in lib or "/jaqalpaq/" in tb[-2].filename if len(tb) > 1 else False):
                # an exception other than JaqalError escaped from the library itself
                msg = f"{type(ex).__name__} escaped from {os.path.basename(lib[-1].filename)}:{lib[-1].lineno}: {ex}"
            elif len(errors) < 3:
                errors.append({"case": key, "error": traceback.format_exc()[-1200:]})
        finally_ = signal.alarm(0)
        if msg:
            fid = None
            for f in findings:
                if f.get("match_regex"):
                    # a listed finding is identified by the shape of the failing input AND what fails, not by either alone
                    if re.search(f["match_regex"], key + "\n" + msg, re.S):
                        fid = f["id"]
                elif f["match"] in key or f["match"] in msg:
                    fid = f["id"]
            if fid is None or not any(v.get("finding") == fid for v in violations):
                h = hashlib.sha1((key + msg).encode()).hexdigest()[:10]
                rel = os.path.join("replays", prop, f"bounded-{h}.json")
                os.makedirs(os.path.join(ROOT, "replays", prop), exist_ok=True)
                with open(os.path.join(ROOT, rel), "w") as fh:
                    json.dump({"kind": "program", "property": prop, "module": f"bounded/{prop.lower()}.py", "case": key, "payload": payload,
                               "what": msg, "replay_cmd": f"/venv/bin/python bounded/{prop.lower()}.py --replay {rel}"}, fh, indent=1, default=str)
                violations.append({"case": key, "what": msg[:400], "replay": rel, "finding": fid})
            if len([v for v in violations if not v.get("finding")]) >= 5:
                exhausted = False
                break
    out = {"evaluations": evaluations, "distinct_nontrivial": len(nontrivial), "distinct": len(distinct),
           "rule": module.RULE, "bound": module.BOUND, "exhaustive": bool(exhausted and a.tier == "thorough" and getattr(module, "EXHAUSTIVE_IN_THOROUGH", False)),
           "samples": samples, "violations": violations, "wall_s": round(time.time() - t0, 1)}
    if errors:
        out["error"] = json.dumps(errors)[:3000]
    print(json.dumps(out, default=str))
    return 1 if any(not v.get("finding") for v in violations) else 0


def replay_program(rf):
    import importlib.util
    path = os.path.join(ROOT, rf["module"])
    spec = importlib.util.spec_from_file_location("bmod", path)
    m = importlib.util.module_from_spec(spec)
    spec.loader.exec_module(m)
    msg = m.check(rf["payload"])
    print("VIOLATION reproduced: " + msg if msg else "no violation on the current tree")
    return 1 if msg else 0
