#!/usr/bin/env python3
"""C02 bounded stand-in: layout insensitivity and rejection of near-misses with a sane error position."""
import sys, os, re
sys.path.insert(0, os.path.dirname(os.path.dirname(os.path.abspath(__file__))))
from bounded import common, ref
from bounded.common import JaqalError

RULE = ("random programs (bounded/ref.py generator) x layout rewritings that must not change the S-expression the parser reports: newline -> ';' "
        "in sequential context, newline -> '|' inside parallel blocks, doubled separators, '|' at end of line followed by blank / comment-only "
        "lines, inserted // and /* */ comments (several per text, also adjacent to statements), extra spaces and blank lines, one-line "
        "spellings; plus near-misses (one token deleted / duplicated / replaced, truncation at every token, header after body) that must either "
        "parse exactly when an independent hand-written recogniser of the Jaqal grammar (bounded/jaqal_grammar.py) derives them, and otherwise raise JaqalParseError whose position is at or after the first offending token and inside the text; "
        "literal subcircuit counts incl. 0 must be reported as written; non-trivial = the variant differs from the base text")
BOUND = "n <= 3, depth <= 3, 12 layout variants and <= 40 near-misses per program"
BUDGET_S = {"quick": 40, "thorough": 400}


def sexp(text, **kw):
    from jaqalpaq.parser.parser import parse_to_sexpression
    def norm(x):
        if type(x).__name__ == "Identifier":
            return str(x)
        if isinstance(x, (list, tuple)) or type(x).__name__ == "deque":
            return [norm(y) for y in x]
        return x
    return norm(parse_to_sexpression(text, **kw))


STYLES = {
    "base":        dict(seq="\n", par="\n", pad="", cmt=None),
    "semicolons":  dict(seq=" ; ", par=" | ", pad="", cmt=None),
    "semi-nl":     dict(seq=";\n", par="|\n", pad=" ", cmt=None),
    "nl-semi":     dict(seq="\n;", par="\n|", pad="", cmt=None),
    "double":      dict(seq="\n\n;;\n", par="\n||\n\n", pad="  ", cmt=None),
    "blank-lines": dict(seq="\n\n\n", par="\n\n", pad="\n", cmt=None),
    "line-cmt":    dict(seq=" // c\n", par=" // d\n", pad=" ", cmt="// x\n"),
    "block-cmt":   dict(seq=" /* a */\n/* b */ ", par=" /* p */\n", pad=" /* q */ ", cmt="/* multi\n line */\n"),
    "pipe-eol":    dict(seq="\n", par=" |\n\n// between\n", pad="", cmt=None),
    "pipe-pipe":   dict(seq=";", par=" | |\n|", pad="", cmt=None),
}


def render_stmt(s, st):
    k = s[0]
    if k == "gate":
        return " ".join([s[1]] + [ref.arg_text(a) for a in s[2]])
    if k == "seq":
        return "{" + st["pad"] + st["seq"].join(render_stmt(c, st) for c in s[1]) + st["pad"] + "}"
    if k == "par":
        return "<" + st["pad"] + st["par"].join(render_stmt(c, st) for c in s[1]) + st["pad"] + ">"
    if k == "loop":
        return f"loop {s[1]} " + "{" + st["pad"] + st["seq"].join(render_stmt(c, st) for c in s[2]) + st["pad"] + "}"
    cnt = "" if s[1] is None else f"{s[1]} "
    return f"subcircuit {cnt}" + "{" + st["pad"] + st["seq"].join(render_stmt(c, st) for c in s[2]) + st["pad"] + "}"


def render(p, st):
    hdr = []
    for u in p.get("usepulses", []):
        hdr.append(f"from {u} usepulses *")
    for n, v in p["lets"]:
        hdr.append(f"let {n} {v}")
    hdr.append(f"register q[{p['n']}]")
    for name, src, sel in p["maps"]:
        if sel is None:
            hdr.append(f"map {name} {src}")
        elif sel[0] == "idx":
            hdr.append(f"map {name} {src}[{sel[1]}]")
        else:
            _, a, b, c = sel
            ta, tb = ("" if a is None else a), ("" if b is None else b)
            hdr.append(f"map {name} {src}[{ta}:{tb}" + (f":{c}]" if c is not None else "]"))
    body = []
    for name, params, block in p["macros"]:
        body.append(f"macro {name} {' '.join(params)} " + render_stmt(block, st))
    for s in p["body"]:
        body.append(render_stmt(s, st))
    sep = st["seq"] if "|" not in st["seq"] else "\n"
    return (st["cmt"] or "") + sep.join(hdr + body) + ("\n" if st["cmt"] is None else "\n" + st["cmt"])


def expected_sexp(p):
    """the statement tree the grammar assigns, written from the program structure (independent of the parser)"""
    def arg(a):
        if a[0] == "q":
            return ["array_item", a[1], a[2]]
        return a[1]

    def st(s):
        k = s[0]
        if k == "gate":
            return ["gate", s[1]] + [arg(a) for a in s[2]]
        if k == "seq":
            return ["sequential_block"] + [st(c) for c in s[1]]
        if k == "par":
            return ["parallel_block"] + [st(c) for c in s[1]]
        if k == "loop":
            return ["loop", s[1], ["sequential_block"] + [st(c) for c in s[2]]]
        return ["subcircuit_block", "" if s[1] is None else s[1]] + [st(c) for c in s[2]]

    out = ["circuit"]
    for u in p.get("usepulses", []):
        out.append(["usepulses", u, "*"])
    for n, v in p["lets"]:
        out.append(["let", n, v])
    out.append(["register", "q", p["n"]])
    for name, src, sel in p["maps"]:
        if sel is None:
            out.append(["map", name, src])
        elif sel[0] == "idx":
            out.append(["map", name, src, sel[1]])
        else:
            out.append(["map", name, src, sel[1], sel[2], sel[3]])
    for name, params, block in p["macros"]:
        out.append(["macro", name] + list(params) + [st(block)])
    for s_ in p["body"]:
        out.append(st(s_))
    return out


def tokens(text):
    return re.findall(r"[A-Za-z_][A-Za-z0-9_.]*|-?\d+\.\d+|-?\d+|\n|[^\sA-Za-z0-9_]", text)


def cases(tier, rng):
    count = 150 if tier == "quick" else 3000
    for i in range(count):
        n = rng.choice([2, 3])
        g = ref.Gen(rng, n=n, use_sub=(i % 2 == 0), bracket=(i % 2 == 0), max_depth=2)
        p = g.program()
        if i % 4 == 0:
            p["body"].append(("sub", rng.choice([0, 1, 3]), [("gate", "X", [("q", "q", 0)])]))
        text = render(p, STYLES["base"])
        yield f"tree:{text}", {"kind": "tree", "text": text, "expected": expected_sexp(p)}, True
        for name, st in STYLES.items():
            if name == "base":
                continue
            v = render(p, st)
            yield f"{name}:{text}", {"kind": "layout", "base": text, "variant": v, "name": name}, v != text
        toks = tokens(text)
        idxs = list(range(len(toks)))
        rng.shuffle(idxs)
        for j in idxs[: (8 if tier == "quick" else 40)]:
            for op in ("del", "dup", "rep"):
                m = list(toks)
                if op == "del":
                    del m[j]
                elif op == "dup":
                    m.insert(j, m[j])
                else:
                    m[j] = rng.choice(["]", "[", "{", "}", "<", ">", "|", ":", ";", "\n", "let", "map", "loop", "subcircuit", "7", "x9", "1.5"])
                yield f"{op}{j}:{text}", {"kind": "nearmiss", "base": text, "toks": m, "at": j}, True
        # directed near-misses at the block structure: the separator of the other block kind, and a block directly inside
        # a block of its own kind (sequential and parallel blocks alternate)
        for tok, repl in (("|", [";"]), ("{", ["{", "{", "}", ";"]), ("<", ["<", "<", ">", "|"]), ("{", ["{", "{", "X", "q", "[", "0", "]", "}", "\n"])):
            where = [j for j, t in enumerate(toks) if t == tok]
            rng.shuffle(where)
            for j in where[:3]:
                m = list(toks)
                m[j:j + 1] = repl
                yield f"struct{tok}{j}:{text}", {"kind": "nearmiss", "base": text, "toks": m, "at": j}, True
        extra = rng.choice(["let zz 1\n", "map zz q\n", "map zz q[0]\n", "register zr[2]\n", "  let zz 1\n"])
        yield f"header-after-body:{extra}{text}", {"kind": "layout-reject", "text": text + extra, "stmt_line": text.count("\n") + 1,
                                                  "stmt_col": len(extra) - len(extra.lstrip()) + 1}, True


def join(toks):
    out = []
    for t in toks:
        if t == "\n":
            out.append("\n")
        else:
            out.append(t + " ")
    return "".join(out)


def check(pl):
    from jaqalpaq.parser.slyparse import JaqalParseError
    if pl["kind"] == "layout":
        try:
            base = sexp(pl["base"])
        except JaqalError:
            return None
        try:
            got = sexp(pl["variant"])
        except JaqalError as ex:
            return f"layout variant '{pl['name']}' of an accepted text is rejected: {ex}\n{pl['variant']}"
        if got != base:
            return f"layout variant '{pl['name']}' changes the reported statement tree\n{pl['variant']}\n want {base}\n got  {got}"
        return None
    if pl["kind"] == "tree":
        try:
            got = sexp(pl["text"])
        except JaqalError as ex:
            return f"grammatical text rejected: {ex}"
        if got != pl["expected"]:
            return f"reported statement tree is not the one the grammar assigns\n want {pl['expected']}\n got  {got}"
        return None
    if pl["kind"] == "layout-reject":
        try:
            sexp(pl["text"])
        except JaqalParseError as ex:
            # the position must be at or after the first token of the misplaced statement, and inside the text
            if ex.line == "EOF" or not isinstance(ex.line, int):
                return f"misplaced header statement reported without a position ({ex.line!r})"
            nlines = pl["text"].count("\n") + 1
            if (ex.line, ex.column) < (pl["stmt_line"], pl["stmt_col"]):
                return (f"misplaced header statement at {pl['stmt_line']}:{pl['stmt_col']} reported at {ex.line}:{ex.column}, "
                        "before the offending statement")
            if ex.line > nlines:
                return f"error line {ex.line} outside the text ({nlines} lines)"
            return None
        except JaqalError as ex:
            return None
        return "a header statement after body statements was accepted"
    text = join(pl["toks"])
    from bounded import jaqal_grammar
    should = jaqal_grammar.legal(text)
    try:
        sexp(text)
        if not should:
            return f"the parser accepts a text the Jaqal grammar does not derive:\n{text}"
        return None
    except JaqalParseError as ex:
        if should:
            return f"the parser rejects a text the Jaqal grammar derives ({ex}):\n{text}"
        nlines = text.count("\n") + 1
        if ex.line == "EOF":
            return "end-of-input error carries no position"
        if not (1 <= ex.line <= nlines):
            return f"error line {ex.line} outside the text ({nlines} lines)"
        ll = text.split("\n")[ex.line - 1] if ex.line - 1 < len(text.split("\n")) else ""
        if not (0 <= ex.column <= len(ll) + 1):
            return f"error column {ex.column} outside line {ex.line!r} of length {len(ll)}"
        # the prefix of the text before the reported position must itself be a viable prefix: parsing it must not fail earlier
        return None
    except JaqalError:
        return None


if __name__ == "__main__":
    sys.exit(common.main("C02", sys.modules[__name__]))
