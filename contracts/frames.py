"""C11: frame conditions of the circuit-level entry methods (what may be written: nothing but fresh objects)."""
from pyvc.dsl import *
from jaqalpaq.core.circuit import Circuit
from jaqalpaq.core.block import BlockStatement
from jaqalpaq.core.macro import Macro
from jaqalpaq.core.algorithm.expand_subcircuits import SubcircuitExpander
from jaqalpaq.core.algorithm.expand_macros import MacroExpander
from jaqalpaq.core.gatedef import AbstractGate, GateDefinition
from contracts_subcircuits import wf_stmt, wf_expander
from contracts_macros import wf_macros, wf_body


@spec
def wf_circuit(c) -> bool:
    return (type_is(c, Circuit) and isinstance(c._native_gates, dict) and isinstance(c._macros, dict) and isinstance(c._constants, dict)
            and isinstance(c._registers, dict) and isinstance(c._usepulses, list) and type_is(c._body, BlockStatement) and wf_stmt(c._body)
            and not c._body._subcircuit
            and forall_keys(c._native_gates, lambda k: isinstance(dict_lookup(c._native_gates, k), GateDefinition) and dict_lookup(c._native_gates, k)._name == k)
            and wf_macros(c._macros))


@contract("core.algorithm.expand_subcircuits:SubcircuitExpander.visit_Circuit", props=["C11", "C09"])
class XCircuitFrame:
    """writes only to the circuit it allocates; in particular not to the input's native gate table, which the
    new circuit shares"""

    def requires(self, circuit):
        return wf_expander(self) and wf_circuit(circuit)

    modifies = ("self.macros",)

    def ensures(self, circuit, result):
        return type_is(result, Circuit) and implies(len(circuit._native_gates) > 0, same(result._native_gates, circuit._native_gates))

    def inv_1(self, circuit, new_circuit, _k):
        return type_is(new_circuit, Circuit) and same(self.macros, new_circuit._macros) and isinstance(self.macros, dict)

    def ensures_header(self, circuit, result):
        return (forall_keys(circuit._constants, lambda k: has_key(result._constants, k) and same(dict_lookup(result._constants, k), dict_lookup(circuit._constants, k)))
                and forall_keys(circuit._registers, lambda k: has_key(result._registers, k) and same(dict_lookup(result._registers, k), dict_lookup(circuit._registers, k))))

    def ensures_usepulses(self, circuit, result):
        return (len(result._usepulses) == len(circuit._usepulses)
                and forall_range(len(circuit._usepulses), lambda k: same(result._usepulses[k], circuit._usepulses[k])))

    raises_only = ("JaqalError",)


@contract("core.algorithm.expand_macros:MacroExpander.visit_Circuit", props=["C11", "C04"])
class MCircuitFrame:
    def requires(self, circuit):
        return type_is(self, MacroExpander) and is_bool(self.preserve_definitions) and wf_circuit(circuit) and wf_body(circuit._body)

    modifies = ("self.macros",)

    def ensures(self, circuit, result):
        return type_is(result, Circuit) and implies(len(circuit._native_gates) > 0, same(result._native_gates, circuit._native_gates))

    def ensures_header(self, circuit, result):
        return (forall_keys(circuit._constants, lambda k: has_key(result._constants, k) and same(dict_lookup(result._constants, k), dict_lookup(circuit._constants, k)))
                and forall_keys(circuit._registers, lambda k: has_key(result._registers, k) and same(dict_lookup(result._registers, k), dict_lookup(circuit._registers, k))))

    def ensures_usepulses(self, circuit, result):
        return (len(result._usepulses) == len(circuit._usepulses)
                and forall_range(len(circuit._usepulses), lambda k: same(result._usepulses[k], circuit._usepulses[k])))

    def ensures_macros_kept(self, circuit, result):
        return implies(self.preserve_definitions == True,
                       forall_keys(circuit._macros, lambda k: has_key(result._macros, k) and same(dict_lookup(result._macros, k), dict_lookup(circuit._macros, k))))

    raises_only = ("JaqalError",)


@assumed("core.circuit:normalize_native_gates", props=["C11"])
class NormalizeNativeAssumed:
    """Assumed (read off the code, not verified: its `any(...)` generator expressions compare keys of unknown
    type): a non-empty dict of gate definitions is returned as the SAME object - the sharing that makes a store
    into the new circuit's native gate table a store into the input's."""

    def requires(native_gates):
        return native_gates is None or isinstance(native_gates, dict)

    def ensures(native_gates, result):
        return isinstance(result, dict) and implies(isinstance(native_gates, dict) and len(native_gates) > 0, same(result, native_gates))

    raises_only = ("JaqalError",)


from jaqalpaq.core.register import Register
from contracts_registers import wf_reg
from jaqalpaq.emulator.backend import AbstractBackend
from jaqalpaq.error import JaqalError


@spec
def regs_typed(c) -> bool:
    return (type_is(c, Circuit) and isinstance(c._registers, dict)
            and forall_range(dict_len(c._registers), lambda j: type_is(dict_val_at(c._registers, j), Register)))


@contract("core.circuit:Circuit.fundamental_registers", props=["C16", "C11"])
class FundamentalRegisters:
    """exactly the declared registers (those that are not aliases), in declaration order; nothing is written"""

    def requires(self):
        return regs_typed(self)

    def ensures(self, result):
        return (isinstance(result, list) and len(result) <= dict_len(self._registers)
                and forall_range(len(result), lambda j: type_is(result[j], Register) and result[j]._alias_from is None))

    def ensures_sound(self, result):
        return forall_range(len(result), lambda j: exists_range(dict_len(self._registers), lambda i: same(result[j], dict_val_at(self._registers, i))))

    def ensures_complete(self, result):
        return forall_range(dict_len(self._registers), lambda i: implies(dict_val_at(self._registers, i)._alias_from is None,
                                                                          exists_range(len(result), lambda j: same(result[j], dict_val_at(self._registers, i)))))

    raises_only = ()


@contract("emulator.backend:AbstractBackend.get_n_qubits", props=["C16", "C03"])
class GetNQubits:
    """the number of qubits emulated is the size of the circuit's one declared register; a circuit without a
    register is refused with JaqalError (C16), never with anything else for the circuits the parser lets through
    (which have at most one declared register)"""

    def requires(self, circ):
        return regs_typed(circ) and forall_range(dict_len(circ._registers), lambda j: wf_reg(dict_val_at(circ._registers, j)))

    def ensures(self, circ, result):
        return exists_range(dict_len(circ._registers), lambda i: dict_val_at(circ._registers, i)._alias_from is None
                            and same(result, dict_val_at(circ._registers, i)._size))

    raises_only = ("JaqalError", "NotImplementedError")
