"""Contracts for jaqalpaq.core.register (C06, C14, C16)."""
from pyvc.dsl import *
from jaqalpaq.core.register import Register, NamedQubit
from jaqalpaq.core.constant import Constant
from jaqalpaq.core.parameter import AnnotatedValue, Parameter
from jaqalpaq.error import JaqalError


# ---- spec functions --------------------------------------------------------------------
@spec
def is_intconst(v) -> bool:
    """an int literal or a let-constant whose (chain of) value(s) ends in an int"""
    if is_int(v):
        return True
    if isinstance(v, Constant):
        return is_intconst(v._value)
    return False


@spec
def ival(v) -> int:
    """integer denoted by an int or an integer let-constant"""
    if isinstance(v, Constant):
        return ival(v._value)
    return v


@spec
def sl_start(s) -> int:
    if s.start is None:
        return 0
    return ival(s.start)


@spec
def sl_step(s) -> int:
    if s.step is None:
        return 1
    return ival(s.step)


@spec
def wf_slice(s) -> bool:
    return (isinstance(s, slice)
            and (s.start is None or is_intconst(s.start))
            and is_intconst(s.stop)
            and (s.step is None or is_intconst(s.step)))


@spec
def wf_reg(r) -> bool:
    """a register built by the constructors from literal / let-valued sizes and bounds"""
    if not type_is(r, Register):
        return False
    if r._alias_from is None:
        return r._alias_slice is None and is_intconst(r._size)
    return (r._size is None and wf_reg(r._alias_from)
            and (r._alias_slice is None or wf_slice(r._alias_slice)))


@spec
def depth(r) -> nat:
    if r._alias_from is None:
        return 0
    return 1 + depth(r._alias_from)


@spec
def root(r):
    if r._alias_from is None:
        return r
    return root(r._alias_from)


@spec
def phys(r, i: int) -> int:
    """C06: element i of an alias src[start:stop:step] is element start+i*step of src, composed"""
    if r._alias_from is None:
        return i
    if r._alias_slice is None:
        return phys(r._alias_from, i)
    return phys(r._alias_from, sl_start(r._alias_slice) + i * sl_step(r._alias_slice))


@spec
def size_of(r) -> int:
    """number of qubits of a register / alias"""
    if r._alias_from is None:
        return ival(r._size)
    if r._alias_slice is None:
        return size_of(r._alias_from)
    return range_len(sl_start(r._alias_slice), ival(r._alias_slice.stop), sl_step(r._alias_slice))


@spec
def size_val(r):
    """the object Register.size returns: the declared size (possibly a let-constant) or a computed int"""
    if r._alias_from is None:
        return r._size
    if r._alias_slice is None:
        return size_val(r._alias_from)
    return range_len(sl_start(r._alias_slice), ival(r._alias_slice.stop), sl_step(r._alias_slice))


@spec
def size_bad(r) -> bool:
    """asking for the size fails: the slice that determines it has step zero"""
    if r._alias_from is None:
        return False
    if r._alias_slice is None:
        return size_bad(r._alias_from)
    return sl_step(r._alias_slice) == 0


@spec
def chain_bad(r, i: int) -> bool:
    """resolution of element i fails at some level of the alias chain: the index is not below the
    size there (C14: never a different qubit), or the size itself is undefined"""
    if size_bad(r):
        return True
    if i < 0 or i >= size_of(r):
        return True
    if r._alias_from is None:
        return False
    if r._alias_slice is None:
        return chain_bad(r._alias_from, i)
    return chain_bad(r._alias_from, sl_start(r._alias_slice) + i * sl_step(r._alias_slice))


# ---- contracts ---------------------------------------------------------------------------
@contract("core.register:Register.resolve_qubit.<locals>.resolve_annotated_value", props=["C06"])
class ResolveAnnotatedValueQ:
    def requires(value, context):
        return is_intconst(value)

    def ensures(value, context, result):
        return is_int(result) and result == ival(value)

    def inv_1(value, context, _k):
        return is_intconst(value) and ival(value) == ival(old(value))

    raises_only = ()


@contract("core.register:Register.resolve_size.<locals>.resolve_annotated_value", props=["C06"])
class ResolveAnnotatedValueS:
    def requires(value, context):
        return is_intconst(value)

    def ensures(value, context, result):
        return is_int(result) and result == ival(value)

    def inv_1(value, context, _k):
        return is_intconst(value) and ival(value) == ival(old(value))

    raises_only = ()


@contract("core.register:Register.resolve_size", props=["C06", "C14", "C16"])
class ResolveSize:
    def requires(self, context):
        return wf_reg(self) and (context is None or isinstance(context, dict))

    def ensures_value(self, context, result):
        return is_intconst(result) and ival(result) == size_of(self)

    def ensures_object(self, context, result):
        return same(result, size_val(self))

    def decreases(self, context):
        return depth(self)

    def raises_JaqalError(self, context):
        return size_bad(self)

    raises_only = ("JaqalError",)


@contract("core.register:Register.resolve_qubit", props=["C06", "C14", "C16"])
class ResolveQubit:
    def requires(self, idx, context):
        return wf_reg(self) and is_int(idx) and (context is None or isinstance(context, dict))

    def ensures_shape(self, idx, context, result):
        return isinstance(result, tuple) and len(result) == 2

    def ensures_root(self, idx, context, result):
        return same(result[0], root(self))

    def ensures_index(self, idx, context, result):
        return is_int(result[1]) and result[1] == phys(self, idx)

    def ensures_root_fundamental(self, idx, context, result):
        return wf_reg(result[0]) and result[0]._alias_from is None and 0 <= result[1] and result[1] < size_of(result[0]) and not size_bad(result[0])

    def raises_JaqalError(self, idx, context):
        return chain_bad(self, idx)

    def inv_1(self, idx, context, size, _k):
        return is_intconst(size) and ival(size) == size_of(self)

    raises_only = ("JaqalError",)

    def decreases(self, idx, context):
        return depth(self)


# ---- qubit references -------------------------------------------------------------------------
@spec
def wf_qubit(q) -> bool:
    """a qubit reference into a register, with a literal or let-valued index"""
    return type_is(q, NamedQubit) and wf_reg(q._alias_from) and is_intconst(q._alias_index)


@spec
def integral(v) -> bool:
    """an int, or a float with an integral value (Parameter.validate accepts those as integers too)"""
    return is_int(v) or (is_float(v) and v == int(v))


@spec
def size_known(r) -> bool:
    """int(r.size) succeeds: the size is an int or an integer-valued let"""
    return not size_bad(r) and (is_int(size_val(r)) or (isinstance(size_val(r), Constant) and is_int(size_val(r)._value)))


@contract("core.register:NamedQubit.resolve_qubit", props=["C06", "C14", "C16"], primary=False)
class QubitResolve:
    def requires(self, context):
        return wf_qubit(self) and (context is None or isinstance(context, dict))

    def ensures_shape(self, context, result):
        return isinstance(result, tuple) and len(result) == 2

    def ensures_root(self, context, result):
        return same(result[0], root(self._alias_from))

    def ensures_index(self, context, result):
        return is_int(result[1]) and result[1] == phys(self._alias_from, ival(self._alias_index))

    def ensures_root_fundamental(self, context, result):
        return wf_reg(result[0]) and result[0]._alias_from is None and 0 <= result[1] and result[1] < size_of(result[0]) and not size_bad(result[0])

    def raises_JaqalError(self, context):
        return chain_bad(self._alias_from, ival(self._alias_index))

    raises_only = ("JaqalError",)

    def inv_1(self, context, alias_index, alias_from, _k):
        return is_intconst(alias_index) and ival(alias_index) == ival(self._alias_index) and same(alias_from, self._alias_from)


@contract("core.register:NamedQubit.__init__", props=["C14", "C16"])
class QubitInit:
    """C14, first clause: a qubit reference with a literal index is only ever constructed in range."""

    def requires(self, name, alias_from, alias_index):
        return (type_is(self, NamedQubit)
                and (alias_from is None or wf_reg(alias_from))
                and (alias_index is None or is_int(alias_index) or is_float(alias_index)))

    modifies = ("self._name", "self._alias_from", "self._alias_index")

    def raises_JaqalError(self, name, alias_from, alias_index):
        return (alias_index is None or alias_from is None
                or (size_known(alias_from)
                    and not (integral(alias_index) and 0 <= alias_index and alias_index < size_of(alias_from))))

    raises_only = ("JaqalError",)

    def ensures_fields(self, name, alias_from, alias_index, result):
        return same(self._name, name) and same(self._alias_from, alias_from)

    def ensures_index_is_stored_as_int(self, name, alias_from, alias_index, result):
        # an integral float (a let overridden with 2.0) denotes that integer: the backends shift and index with it
        return (implies(is_float(alias_index) and alias_index == int(alias_index), is_int(self._alias_index) and self._alias_index == alias_index)
                and implies(not (is_float(alias_index) and alias_index == int(alias_index)), same(self._alias_index, alias_index)))

    def region_negative_index(self, name, alias_from, alias_index):
        return is_int(alias_index) and alias_index < 0

    def region_float_index(self, name, alias_from, alias_index):
        return is_float(alias_index)


@contract("core.register:Register.__getitem__", props=["C06", "C14", "C16"])
class RegisterGetItem:
    def requires(self, key):
        return wf_reg(self) and is_int(key)

    def raises_JaqalError(self, key):
        return size_known(self) and not (0 <= key and key < size_of(self))

    raises_only = ("JaqalError",)

    def ensures_qubit(self, key, result):
        return type_is(result, NamedQubit) and same(result._alias_from, self) and same(result._alias_index, key)


# ---------------------------------------------------------------- C14: the range check at construction of an alias
from jaqalpaq.core.parameter import AnnotatedValue, ParamType


@spec
def bad_kind(b) -> bool:
    """a let-valued slice bound whose kind is not an integer kind"""
    return isinstance(b, AnnotatedValue) and not (b._kind == ParamType.INT or b._kind == ParamType.NONE)


@spec
def kinded(b) -> bool:
    return implies(isinstance(b, AnnotatedValue), isinstance(b._kind, ParamType))


@spec
def any_annotated(s) -> bool:
    return isinstance(s.start, AnnotatedValue) or isinstance(s.stop, AnnotatedValue) or isinstance(s.step, AnnotatedValue)


@contract("core.register:Register.__init__", props=["C14", "C16"])
class RegisterInit:
    """C14 at construction: a register needs a size and nothing else, an alias a source and no size; an alias slice
    with literal bounds over a source of known literal size is refused with JaqalError EXACTLY when its stop exceeds
    the source's size or its start is negative (the stop, not the number of selected qubits, is what must fit);
    let-valued bounds must be of an integer kind.  Nothing but JaqalError escapes; the four fields are set."""

    def requires(self, name, size, alias_from, alias_slice):
        return (type_is(self, Register) and is_str(name)
                and (size is None or is_int(size) or is_float(size) or (type_is(size, Constant) and isinstance(size._kind, ParamType)))
                and (alias_from is None or wf_reg(alias_from))
                and (alias_slice is None or (wf_slice(alias_slice) and alias_from is not None
                                             and kinded(alias_slice.start) and kinded(alias_slice.stop) and kinded(alias_slice.step))))

    modifies = ("self._name", "self._size", "self._alias_from", "self._alias_slice")

    def raises_JaqalError(self, name, size, alias_from, alias_slice):
        return ((alias_from is None and not (alias_slice is None and size is not None))
                or (size is not None and alias_from is not None)
                # a size must be an integer: an integral float denotes it, a float-kinded let or any other float is refused
                or (is_float(size) and size != int(size)) or bad_kind(size)
                or (alias_slice is not None and any_annotated(alias_slice)
                    and (bad_kind(alias_slice.start) or bad_kind(alias_slice.stop) or bad_kind(alias_slice.step)))
                or (alias_slice is not None and not any_annotated(alias_slice)
                    and (size_bad(alias_from)
                         or (is_int(size_val(alias_from)) and (alias_slice.stop > size_val(alias_from) or sl_start(alias_slice) < 0)))))

    raises_only = ("JaqalError",)

    def ensures_fields(self, name, size, alias_from, alias_slice, result):
        return (same(self._name, name) and same(self._alias_from, alias_from) and same(self._alias_slice, alias_slice)
                and implies(is_float(size), is_int(self._size) and self._size == size) and implies(not is_float(size), same(self._size, size)))


# ---------------------------------------------------------------- C07 / C13: references that mention macro parameters
from jaqalpaq.core.parameter import Parameter


@contract("core.parameter:AnnotatedValue.resolve_value", props=["C07", "C13", "C16"])
class ResolveValue:
    """a parameter denotes what the context binds its NAME to - and nothing but JaqalError when it is unbound"""

    def requires(self, context):
        return isinstance(self, AnnotatedValue) and is_str(self._name) and (context is None or isinstance(context, dict))

    def raises_JaqalError(self, context):
        return context is None or len(context) == 0 or not has_key(context, self._name)

    raises_only = ("JaqalError",)

    def ensures(self, context, result):
        return same(result, dict_lookup(context, self._name))


@spec
def bound_idx(q, ctx):
    """the index of a reference in a scope: a parameter index is what the scope binds it to"""
    if type_is(q._alias_index, Parameter):
        return dict_lookup(ctx, q._alias_index._name)
    return q._alias_index


@spec
def bound_reg(q, ctx):
    if type_is(q._alias_from, Parameter):
        return dict_lookup(ctx, q._alias_from._name)
    return q._alias_from


@spec
def wf_pqubit(q, ctx) -> bool:
    """a reference r[i] in a macro body whose r and/or i may be parameters, in a scope that binds them to a
    register and an integer"""
    return (type_is(q, NamedQubit) and isinstance(ctx, dict) and len(ctx) >= 1
            and (type_is(q._alias_index, Parameter) or type_is(q._alias_from, Parameter))
            and (type_is(q._alias_index, Parameter) or is_int(q._alias_index))
            and (type_is(q._alias_from, Parameter) or wf_reg(q._alias_from))
            and implies(type_is(q._alias_index, Parameter), is_str(q._alias_index._name) and has_key(ctx, q._alias_index._name) and is_int(dict_lookup(ctx, q._alias_index._name)))
            and implies(type_is(q._alias_from, Parameter), is_str(q._alias_from._name) and has_key(ctx, q._alias_from._name) and wf_reg(dict_lookup(ctx, q._alias_from._name))))


@contract("core.register:NamedQubit.resolve_qubit", props=["C07", "C13", "C06"], primary=False)
class QubitResolveInScope:
    """C07/C13: a reference written with macro parameters resolves, in a scope, to the physical qubit of the C06
    specification applied to what THAT scope binds the parameters to"""

    def requires(self, context):
        return wf_pqubit(self, context)

    def ensures_shape(self, context, result):
        return isinstance(result, tuple) and len(result) == 2

    def ensures_root(self, context, result):
        return same(result[0], root(bound_reg(self, context)))

    def ensures_index(self, context, result):
        return is_int(result[1]) and result[1] == phys(bound_reg(self, context), bound_idx(self, context))

    def ensures_root_fundamental(self, context, result):
        return wf_reg(result[0]) and result[0]._alias_from is None and 0 <= result[1] and result[1] < size_of(result[0]) and not size_bad(result[0])

    def raises_JaqalError(self, context):
        return chain_bad(bound_reg(self, context), bound_idx(self, context))

    raises_only = ("JaqalError",)

    def inv_1(self, context, alias_index, alias_from, _k):
        return (same(alias_from, self._alias_from)
                and (same(alias_index, self._alias_index) or same(alias_index, bound_idx(self, context))))

    def inv_2(self, context, alias_index, alias_from, _k):
        return (same(alias_index, bound_idx(self, context))
                and (same(alias_from, self._alias_from) or same(alias_from, bound_reg(self, context))))


@contract("core.register:NamedQubit.resolve_qubit", props=["C06", "C07", "C13"])
class QubitResolveAny:
    """the two cases above as one contract (this is the one call sites use): a literal / let-indexed reference into a
    register, or a reference written with macro parameters in a scope that binds them"""

    def requires(self, context):
        return (wf_qubit(self) and (context is None or isinstance(context, dict))) or wf_pqubit(self, context)

    def ensures_shape(self, context, result):
        return isinstance(result, tuple) and len(result) == 2

    def ensures_root(self, context, result):
        return same(result[0], root(bound_reg(self, context)))

    def ensures_index(self, context, result):
        return is_int(result[1]) and result[1] == phys(bound_reg(self, context), ival(bound_idx(self, context)))

    def ensures_root_fundamental(self, context, result):
        return wf_reg(result[0]) and result[0]._alias_from is None and 0 <= result[1] and result[1] < size_of(result[0]) and not size_bad(result[0])

    def raises_JaqalError(self, context):
        return chain_bad(bound_reg(self, context), ival(bound_idx(self, context)))

    raises_only = ("JaqalError",)

    def inv_1(self, context, alias_index, alias_from, _k):
        return (same(alias_from, self._alias_from)
                and (same(alias_index, self._alias_index)
                     or (is_intconst(alias_index) and ival(alias_index) == ival(bound_idx(self, old(context))))))

    def inv_2(self, context, alias_index, alias_from, _k):
        return (is_int(alias_index) and alias_index == ival(bound_idx(self, old(context)))
                and (same(alias_from, self._alias_from) or same(alias_from, bound_reg(self, old(context)))))
