"""C03: argument wiring of the emulator - which qubits a gate's matrix acts on, and in which order.
The function under contract is `_extracted_wiring`, cut mechanically out of UnitarySerializedEmulator._make_subcircuit
by pyvc/classtable.py on every run (see its docstring for exactly what is cut and what is dropped)."""
from pyvc.dsl import *
from jaqalpaq.core.gate import GateStatement
from jaqalpaq.core.gatedef import AbstractGate
from jaqalpaq.core.parameter import Parameter, ParamType
from jaqalpaq.core.register import NamedQubit
from contracts_registers import wf_qubit, phys, ival, chain_bad


@spec
def quantum(p) -> bool:
    return p._kind == ParamType.QUBIT or p._kind == ParamType.REGISTER


@spec
def nq(g, j: int) -> nat:
    """number of quantum parameters among the first j parameters of definition g"""
    if j <= 0:
        return 0
    if quantum(g._parameters[j - 1]):
        return nq(g, j - 1) + 1
    return nq(g, j - 1)


@spec
def wf_wired(gatedef, gate) -> bool:
    """a native gate statement as the builder makes it: one argument per parameter, in parameter order; parameters
    are typed (native gates always are); a quantum argument is a well-formed qubit reference"""
    return (isinstance(gatedef, AbstractGate) and isinstance(gatedef._parameters, list) and type_is(gate, GateStatement)
            and isinstance(gate._parameters, dict) and dict_len(gate._parameters) == len(gatedef._parameters)
            and forall_range(len(gatedef._parameters), lambda j: type_is(gatedef._parameters[j], Parameter) and isinstance(gatedef._parameters[j]._kind, ParamType)
                             and gatedef._parameters[j]._kind != ParamType.NONE
                             and implies(quantum(gatedef._parameters[j]), wf_qubit(dict_val_at(gate._parameters, j)))))


@contract("emulator.unitary:_extracted_wiring", props=["C03"])
class Wiring:
    """the k-th QUANTUM argument of the statement, resolved through its aliases to the physical index of the C06
    specification, is entry k of qind - so (kernel lemma G1) bit k of the gate matrix index is that qubit; the
    classical arguments are passed to ideal_unitary in parameter order; an unresolvable reference is a JaqalError"""

    def requires(gatedef, gate):
        return wf_wired(gatedef, gate)

    def ensures_shape(gatedef, gate, result):
        return (isinstance(result, tuple) and len(result) == 2 and isinstance(result[0], list) and isinstance(result[1], list)
                and len(result[1]) == nq(gatedef, len(gatedef._parameters))
                and len(result[0]) == len(gatedef._parameters) - nq(gatedef, len(gatedef._parameters)))

    def ensures_qubits(gatedef, gate, result):
        return forall_range(len(gatedef._parameters), lambda j: implies(
            quantum(gatedef._parameters[j]),
            result[1][nq(gatedef, j)] == phys(dict_val_at(gate._parameters, j)._alias_from, ival(dict_val_at(gate._parameters, j)._alias_index))))

    def ensures_classical(gatedef, gate, result):
        return forall_range(len(gatedef._parameters), lambda j: implies(
            not quantum(gatedef._parameters[j]), same(result[0][j - nq(gatedef, j)], dict_val_at(gate._parameters, j))))

    def inv_1(gatedef, gate, argv, qind, _k):
        return (isinstance(argv, list) and isinstance(qind, list) and len(qind) == nq(gatedef, _k) and len(argv) == _k - nq(gatedef, _k)
                # positions already written stay below the current lengths (what makes appending preserve them)
                and forall_range(_k, lambda j: (nq(gatedef, j) < len(qind) if quantum(gatedef._parameters[j]) else j - nq(gatedef, j) < len(argv))
                                 and nq(gatedef, j) >= 0 and j - nq(gatedef, j) >= 0)
                and forall_range(_k, lambda j: implies(quantum(gatedef._parameters[j]),
                                                       qind[nq(gatedef, j)] == phys(dict_val_at(gate._parameters, j)._alias_from, ival(dict_val_at(gate._parameters, j)._alias_index))))
                and forall_range(_k, lambda j: implies(not quantum(gatedef._parameters[j]), same(argv[j - nq(gatedef, j)], dict_val_at(gate._parameters, j)))))

    raises_only = ("JaqalError",)
