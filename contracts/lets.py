"""C05: let substitution - the environment lookup and the S-expressions emitted per node."""
from pyvc.dsl import *
from jaqalpaq.core.block import BlockStatement, LoopStatement
from jaqalpaq.core.gate import GateStatement
from jaqalpaq.core.constant import Constant
from jaqalpaq.core.parameter import Parameter, AnnotatedValue
from jaqalpaq.core.algorithm.fill_in_let import LetFiller
from jaqalpaq.error import JaqalError


@spec
def wf_filler(v) -> bool:
    return (isinstance(v, LetFiller) and isinstance(v.override_dict, dict) and isinstance(v.register_names, set)
            # "a dictionary mapping strings to ints or floats" (fill_in_let's documented interface)
            and forall_keys(v.override_dict, lambda k: is_int(dict_lookup(v.override_dict, k)) or is_float(dict_lookup(v.override_dict, k))))


@spec
def cval(v, const):
    """C05: each constant is bound to its overriding value if given, else its declared value"""
    if has_key(v.override_dict, const._name):
        return dict_lookup(v.override_dict, const._name)
    return const._value


@contract("core.algorithm.fill_in_let:LetFiller.resolve_constant", props=["C05"], also_for=["RegisterVisitor"])
class ResolveConstant:
    def requires(self, const):
        return wf_filler(self) and type_is(const, Constant)

    def ensures(self, const, result):
        return same(result, cval(self, const))

    def raises_JaqalError(self, const):
        return not has_key(self.override_dict, const._name) and not (is_int(const._value) or is_float(const._value) or is_bool(const._value))

    raises_only = ("JaqalError",)


@contract("core.algorithm.fill_in_let:LetFiller.visit_Constant", props=["C05"], also_for=["RegisterVisitor"])
class VisitConstant:
    def requires(self, const):
        return wf_filler(self) and type_is(const, Constant)

    def ensures(self, const, result):
        return same(result, cval(self, const))

    def raises_JaqalError(self, const):
        return not has_key(self.override_dict, const._name) and not (is_int(const._value) or is_float(const._value) or is_bool(const._value))

    raises_only = ("JaqalError",)


@contract("core.algorithm.fill_in_let:LetFiller.visit_default", props=["C05", "C11"], also_for=["RegisterVisitor"])
class VisitDefault:
    """everything that is not a constant, qubit, register or statement - numbers and macro parameters that
    shadow a constant in particular - is left alone"""

    def requires(self, obj):
        return wf_filler(self)

    def ensures(self, obj, result):
        return same(result, obj)

    raises_only = ()


from contracts_subcircuits import wf_stmt
from jaqalpaq.core.register import NamedQubit, Register
from jaqalpaq.core.gatedef import AbstractGate


@spec
def subst(v, x):
    """value substituted for a count / argument: constants by their environment value, the rest unchanged"""
    if type_is(x, Constant):
        return cval(v, x)
    return x


@spec
def count_ok(v, x) -> bool:
    """a loop / subcircuit count: an int, a let, or a macro parameter"""
    return is_int(x) or isinstance(x, Parameter) or (type_is(x, Constant) and (has_key(v.override_dict, x._name) or is_int(x._value) or is_float(x._value)))


@spec
def let_qubit_ok(v, q) -> bool:
    """a qubit reference as LetFiller.visit_NamedQubit expects it (its precondition)"""
    return (type_is(q, NamedQubit) and is_str(q._name)
            and (isinstance(q._alias_from, Register) or isinstance(q._alias_from, Parameter)) and is_str(q._alias_from._name)
            and (is_int(q._alias_index) or (isinstance(q._alias_index, Parameter) and is_str(q._alias_index._name))
                 or (type_is(q._alias_index, Constant) and (has_key(v.override_dict, q._alias_index._name) or is_int(q._alias_index._value)))))


@spec
def let_arg_ok(v, a) -> bool:
    """gate arguments under this contract: numbers, lets with a numeric value (or overridden), macro parameters, qubit
    references.  (A whole register as a gate argument goes through visit_Register, which is not under contract.)"""
    return (is_int(a) or is_float(a) or type_is(a, Parameter) or let_qubit_ok(v, a)
            or (type_is(a, Constant) and (has_key(v.override_dict, a._name) or is_int(a._value) or is_float(a._value))))


@spec
def wf_lstmt(v, o) -> bool:
    """statement trees whose loop and subcircuit counts are ints, lets with a value, or macro parameters"""
    if isinstance(o, LoopStatement):
        return count_ok(v, o._iterations) and isinstance(o._statements, BlockStatement) and wf_lstmt(v, o._statements)
    if isinstance(o, BlockStatement):
        return (isinstance(o._statements, list) and is_bool(o._parallel) and is_bool(o._subcircuit) and count_ok(v, o._iterations)
                and forall_range(len(o._statements), lambda k: wf_lstmt(v, o._statements[k])))
    return (type_is(o, GateStatement) and isinstance(o._parameters, dict) and isinstance(o._gate_def, AbstractGate)
            and forall_range(dict_len(o._parameters), lambda j: let_arg_ok(v, dict_val_at(o._parameters, j))))


@spec
def let_free(sx) -> bool:
    """C05, 'no gate argument, qubit index, loop count or subcircuit count refers to a constant any more': the emitted
    S-expression mentions no let constant at any depth, and no object of the input tree (statement or qubit
    reference) is handed through un-rewritten.  By the grammar of statement S-expressions."""
    if isinstance(sx, list):
        if len(sx) >= 2 and sx[0] == "gate":
            return forall_range(len(sx) - 2, lambda k: let_free(sx[k + 2]))
        if len(sx) >= 2 and sx[0] == "subcircuit_block":
            return let_free(sx[1]) and forall_range(len(sx) - 2, lambda k: let_free(sx[k + 2]))
        if len(sx) == 3 and sx[0] == "loop":
            return let_free(sx[1]) and let_free(sx[2])
        return len(sx) >= 1 and (sx[0] == "sequential_block" or sx[0] == "parallel_block") and forall_range(len(sx) - 1, lambda k: let_free(sx[k + 1]))
    if isinstance(sx, tuple):
        return len(sx) == 3 and sx[0] == "array_item" and not isinstance(sx[2], Constant)
    return not (isinstance(sx, Constant) or isinstance(sx, NamedQubit) or isinstance(sx, GateStatement) or isinstance(sx, BlockStatement)
                or isinstance(sx, LoopStatement))


@contract("core.algorithm.fill_in_let:LetFiller.visit_LoopStatement", props=["C05", "C11"])
class VisitLoop:
    """emits  ["loop", <count with constants substituted>, <block>]"""

    def requires(self, loop):
        return wf_filler(self) and type_is(self, LetFiller) and isinstance(loop, LoopStatement) and wf_lstmt(self, loop)

    def ensures(self, loop, result):
        return (isinstance(result, list) and len(result) == 3 and result[0] == "loop"
                and same(result[1], subst(self, loop._iterations)))

    def ensures_no_constant_left(self, loop, result):
        return let_free(result)

    raises_only = ("JaqalError",)


@contract("core.algorithm.fill_in_let:LetFiller.visit_BlockStatement", props=["C05", "C11"])
class VisitBlock:
    """emits the block kind the input has - subcircuit blocks with their (substituted) count - and one
    entry per child statement"""

    def requires(self, block):
        return wf_filler(self) and type_is(self, LetFiller) and isinstance(block, BlockStatement) and wf_lstmt(self, block)

    def ensures_subcircuit(self, block, result):
        return implies(block._subcircuit, isinstance(result, list) and len(result) == len(block._statements) + 2
                       and result[0] == "subcircuit_block" and same(result[1], subst(self, block._iterations)))

    def ensures_parallel(self, block, result):
        return implies(not block._subcircuit and block._parallel, isinstance(result, list) and len(result) == len(block._statements) + 1
                       and result[0] == "parallel_block")

    def ensures_sequential(self, block, result):
        return implies(not block._subcircuit and not block._parallel, isinstance(result, list) and len(result) == len(block._statements) + 1
                       and result[0] == "sequential_block")

    def ensures_no_constant_left(self, block, result):
        return let_free(result)

    raises_only = ("JaqalError",)


from jaqalpaq.core.algorithm.fill_in_let import RegisterVisitor


@contract("core.algorithm.fill_in_let:RegisterVisitor.visit_NamedQubit", props=["C05", "C06"])
class RegVisitQubit:
    """a single-qubit alias `map t src[k]` is re-declared with k replaced by its value in the chosen environment"""

    def requires(self, qubit):
        return (wf_filler(self) and type_is(self, RegisterVisitor) and type_is(qubit, NamedQubit) and is_str(qubit._name)
                and isinstance(qubit._alias_from, Register) and is_str(qubit._alias_from._name)
                and (is_int(qubit._alias_index) or (type_is(qubit._alias_index, Constant) and (has_key(self.override_dict, qubit._alias_index._name) or is_int(qubit._alias_index._value)))))

    def ensures(self, qubit, result):
        return (isinstance(result, list) and len(result) == 4 and result[0] == "map" and result[1] == qubit._name
                and result[2] == qubit._alias_from._name and same(result[3], subst(self, qubit._alias_index)))

    raises_only = ("JaqalError",)


@contract("core.algorithm.fill_in_let:LetFiller.visit_NamedQubit", props=["C05", "C06", "C10"])
class LetVisitQubit:
    """a qubit reference is re-expressed by name: the alias name itself for a declared single-qubit alias, else
    array_item(source name, index) with a let index replaced by its environment value and a parameter index by its name"""

    def requires(self, qubit):
        return (wf_filler(self) and type_is(self, LetFiller) and isinstance(self.register_names, set) and type_is(qubit, NamedQubit) and is_str(qubit._name)
                and (isinstance(qubit._alias_from, Register) or isinstance(qubit._alias_from, Parameter)) and is_str(qubit._alias_from._name)
                and (is_int(qubit._alias_index) or (isinstance(qubit._alias_index, Parameter) and is_str(qubit._alias_index._name))
                     or (type_is(qubit._alias_index, Constant) and (has_key(self.override_dict, qubit._alias_index._name) or is_int(qubit._alias_index._value)))))

    def ensures_alias(self, qubit, result):
        return implies(qubit._name in self.register_names, same(result, qubit._name))

    def ensures_item(self, qubit, result):
        return implies(not (qubit._name in self.register_names),
                       isinstance(result, tuple) and len(result) == 3 and result[0] == "array_item" and result[1] == qubit._alias_from._name
                       and implies(type_is(qubit._alias_index, Constant), same(result[2], cval(self, qubit._alias_index)))
                       and implies(is_int(qubit._alias_index), same(result[2], qubit._alias_index))
                       and implies(isinstance(qubit._alias_index, Parameter), same(result[2], qubit._alias_index._name)))

    def ensures_no_constant_left(self, qubit, result):
        return let_free(result)

    raises_only = ("JaqalError",)


@contract("core.algorithm.fill_in_let:LetFiller.visit_GateStatement", props=["C05", "C10"])
class VisitGate:
    """emits ["gate", name, args...] with one entry per argument, in order: a let constant becomes its value in
    the chosen environment (override if given, else declared value), numbers and macro parameters - also one that
    shadows an overridden let - are passed through unchanged, a qubit reference is re-expressed by name"""

    def requires(self, gate):
        return (wf_filler(self) and type_is(self, LetFiller) and isinstance(self.register_names, set) and wf_lstmt(self, gate) and type_is(gate, GateStatement))

    def ensures_shape(self, gate, result):
        return (isinstance(result, list) and len(result) == dict_len(gate._parameters) + 2 and result[0] == "gate"
                and same(result[1], gate._gate_def._name))

    def ensures_args(self, gate, result):
        return forall_range(dict_len(gate._parameters), lambda j:
                            implies(type_is(dict_val_at(gate._parameters, j), Constant), same(result[j + 2], cval(self, dict_val_at(gate._parameters, j))))
                            and implies(not type_is(dict_val_at(gate._parameters, j), Constant) and not type_is(dict_val_at(gate._parameters, j), NamedQubit),
                                        same(result[j + 2], dict_val_at(gate._parameters, j)))
                            and implies(type_is(dict_val_at(gate._parameters, j), NamedQubit) and not (dict_val_at(gate._parameters, j)._name in self.register_names),
                                        isinstance(result[j + 2], tuple) and len(result[j + 2]) == 3 and result[j + 2][0] == "array_item"
                                        and result[j + 2][1] == dict_val_at(gate._parameters, j)._alias_from._name))

    def ensures_no_constant_in_args_a(self, gate, result):
        return forall_range(dict_len(gate._parameters), lambda j: implies(type_is(dict_val_at(gate._parameters, j), Constant), let_free(result[j + 2])))

    def ensures_no_constant_in_args_b(self, gate, result):
        return forall_range(dict_len(gate._parameters), lambda j: implies(not type_is(dict_val_at(gate._parameters, j), Constant) and not type_is(dict_val_at(gate._parameters, j), NamedQubit), let_free(result[j + 2])))

    def ensures_no_constant_in_args_c(self, gate, result):
        return forall_range(dict_len(gate._parameters), lambda j: implies(type_is(dict_val_at(gate._parameters, j), NamedQubit), let_free(result[j + 2])))

    def ensures_no_constant_left(self, gate, result):
        return let_free(result)

    raises_only = ("JaqalError",)


from contracts_registers import wf_reg, size_val


@spec
def bound_ok(v, b) -> bool:
    """an alias bound: absent, a literal, or a let with a numeric value (or overridden)"""
    return b is None or is_int(b) or (type_is(b, Constant) and (has_key(v.override_dict, b._name) or is_int(b._value) or is_float(b._value)))


@contract("core.algorithm.fill_in_let:LetFiller.visit_Register", props=["C05", "C06", "C14"])
class VisitRegister:
    """a register or alias is re-declared with every let in its size or bounds replaced by its value in the chosen
    environment: ["register", name, size] / ["map", name, source name] / ["map", name, source name, start, stop,
    step]; one already declared in the rebuilt circuit is referred to by name; a register with a literal size is
    passed on unchanged.  An alias is ALWAYS re-declared (its source register is rebuilt, so the old object would
    point at the input circuit)."""

    def requires(self, reg):
        return (wf_filler(self) and type_is(self, LetFiller) and type_is(reg, Register) and is_str(reg._name)
                and implies(reg._alias_from is None, wf_reg(reg) and (is_int(reg._size) or bound_ok(self, reg._size)))
                and implies(reg._alias_from is not None, isinstance(reg._alias_from, Register) and is_str(reg._alias_from._name)
                            and (reg._alias_slice is None or (isinstance(reg._alias_slice, slice) and bound_ok(self, reg._alias_slice.start)
                                                               and bound_ok(self, reg._alias_slice.stop) and bound_ok(self, reg._alias_slice.step)))))

    def ensures_declared(self, reg, result):
        return implies(reg._name in self.register_names, same(result, reg._name))

    def ensures_register(self, reg, result):
        return implies(not (reg._name in self.register_names) and reg._alias_from is None,
                       implies(type_is(reg._size, Constant), isinstance(result, list) and len(result) == 3 and result[0] == "register"
                               and result[1] == reg._name and same(result[2], cval(self, reg._size)))
                       and implies(not type_is(reg._size, Constant), same(result, reg)))

    def ensures_whole_alias(self, reg, result):
        return implies(not (reg._name in self.register_names) and reg._alias_from is not None and reg._alias_slice is None,
                       isinstance(result, list) and len(result) == 3 and result[0] == "map" and result[1] == reg._name
                       and result[2] == reg._alias_from._name)

    def ensures_slice_alias(self, reg, result):
        return implies(not (reg._name in self.register_names) and reg._alias_from is not None and reg._alias_slice is not None,
                       isinstance(result, list) and len(result) == 6 and result[0] == "map" and result[1] == reg._name
                       and result[2] == reg._alias_from._name and same(result[3], subst(self, reg._alias_slice.start))
                       and same(result[4], subst(self, reg._alias_slice.stop)) and same(result[5], subst(self, reg._alias_slice.step)))

    raises_only = ("JaqalError",)


from jaqalpaq.core.macro import Macro


@contract("core.algorithm.fill_in_let:LetFiller.visit_Macro", props=["C05"])
class VisitMacro:
    """a macro is re-emitted as ["macro", name, <parameter names in order>, <body>]: the parameter list is untouched
    (parameters that shadow a constant are left alone) and no constant is left in the body"""

    def requires(self, macro):
        return (wf_filler(self) and type_is(self, LetFiller) and type_is(macro, Macro) and is_str(macro._name) and isinstance(macro._parameters, list)
                and forall_range(len(macro._parameters), lambda k: type_is(macro._parameters[k], Parameter) and is_str(macro._parameters[k]._name))
                and type_is(macro._body, BlockStatement) and wf_lstmt(self, macro._body))

    def ensures_shape(self, macro, result):
        return (isinstance(result, list) and len(result) == len(macro._parameters) + 3 and result[0] == "macro" and result[1] == macro._name
                and forall_range(len(macro._parameters), lambda k: result[k + 2] == macro._parameters[k]._name))

    def ensures_body(self, macro, result):
        return let_free(result[len(macro._parameters) + 2])

    raises_only = ("JaqalError",)
