"""C05: let substitution - the environment lookup and the S-expressions emitted per node."""
from pyvc.dsl import *
from jaqalpaq.core.block import BlockStatement, LoopStatement
from jaqalpaq.core.gate import GateStatement
from jaqalpaq.core.constant import Constant
from jaqalpaq.core.parameter import Parameter, AnnotatedValue
from jaqalpaq.core.algorithm.fill_in_let import LetFiller
from jaqalpaq.error import JaqalError


@spec
def wf_filler(v) -> bool:
    return isinstance(v, LetFiller) and isinstance(v.override_dict, dict)


@spec
def cval(v, const):
    """C05: each constant is bound to its overriding value if given, else its declared value"""
    if has_key(v.override_dict, const._name):
        return dict_lookup(v.override_dict, const._name)
    return const._value


@contract("core.algorithm.fill_in_let:LetFiller.resolve_constant", props=["C05"], also_for=["RegisterVisitor"])
class ResolveConstant:
    def requires(self, const):
        return wf_filler(self) and type_is(const, Constant)

    def ensures(self, const, result):
        return same(result, cval(self, const))

    def raises_JaqalError(self, const):
        return not has_key(self.override_dict, const._name) and not (is_int(const._value) or is_float(const._value) or is_bool(const._value))

    raises_only = ("JaqalError",)


@contract("core.algorithm.fill_in_let:LetFiller.visit_Constant", props=["C05"], also_for=["RegisterVisitor"])
class VisitConstant:
    def requires(self, const):
        return wf_filler(self) and type_is(const, Constant)

    def ensures(self, const, result):
        return same(result, cval(self, const))

    def raises_JaqalError(self, const):
        return not has_key(self.override_dict, const._name) and not (is_int(const._value) or is_float(const._value) or is_bool(const._value))

    raises_only = ("JaqalError",)


@contract("core.algorithm.fill_in_let:LetFiller.visit_default", props=["C05", "C11"], also_for=["RegisterVisitor"])
class VisitDefault:
    """everything that is not a constant, qubit, register or statement - numbers and macro parameters that
    shadow a constant in particular - is left alone"""

    def requires(self, obj):
        return wf_filler(self)

    def ensures(self, obj, result):
        return same(result, obj)

    raises_only = ()


from contracts_subcircuits import wf_stmt


@spec
def subst(v, x):
    """value substituted for a count / argument: constants by their environment value, the rest unchanged"""
    if type_is(x, Constant):
        return cval(v, x)
    return x


@spec
def count_ok(v, x) -> bool:
    """a loop / subcircuit count: an int, a let, or a macro parameter"""
    return is_int(x) or isinstance(x, Parameter) or (type_is(x, Constant) and (has_key(v.override_dict, x._name) or is_int(x._value) or is_float(x._value)))


@spec
def wf_lstmt(v, o) -> bool:
    """statement trees whose loop and subcircuit counts are ints, lets with a value, or macro parameters"""
    if isinstance(o, LoopStatement):
        return count_ok(v, o._iterations) and isinstance(o._statements, BlockStatement) and wf_lstmt(v, o._statements)
    if isinstance(o, BlockStatement):
        return (isinstance(o._statements, list) and is_bool(o._parallel) and is_bool(o._subcircuit) and count_ok(v, o._iterations)
                and forall_range(len(o._statements), lambda k: wf_lstmt(v, o._statements[k])))
    return isinstance(o, GateStatement)


@contract("core.algorithm.fill_in_let:LetFiller.visit_LoopStatement", props=["C05", "C11"])
class VisitLoop:
    """emits  ["loop", <count with constants substituted>, <block>]"""

    def requires(self, loop):
        return wf_filler(self) and type_is(self, LetFiller) and isinstance(loop, LoopStatement) and wf_lstmt(self, loop)

    def ensures(self, loop, result):
        return (isinstance(result, list) and len(result) == 3 and result[0] == "loop"
                and same(result[1], subst(self, loop._iterations)))

    raises_only = ("JaqalError",)


@contract("core.algorithm.fill_in_let:LetFiller.visit_BlockStatement", props=["C05", "C11"])
class VisitBlock:
    """emits the block kind the input has - subcircuit blocks with their (substituted) count - and one
    entry per child statement"""

    def requires(self, block):
        return wf_filler(self) and type_is(self, LetFiller) and isinstance(block, BlockStatement) and wf_lstmt(self, block)

    def ensures_subcircuit(self, block, result):
        return implies(block._subcircuit, isinstance(result, list) and len(result) == len(block._statements) + 2
                       and result[0] == "subcircuit_block" and same(result[1], subst(self, block._iterations)))

    def ensures_parallel(self, block, result):
        return implies(not block._subcircuit and block._parallel, isinstance(result, list) and len(result) == len(block._statements) + 1
                       and result[0] == "parallel_block")

    def ensures_sequential(self, block, result):
        return implies(not block._subcircuit and not block._parallel, isinstance(result, list) and len(result) == len(block._statements) + 1
                       and result[0] == "sequential_block")

    raises_only = ("JaqalError",)


@assumed("core.algorithm.fill_in_let:LetFiller.visit_GateStatement", props=["C05"])
class VisitGateAssumed:
    """Assumed here (argument substitution is covered by the bounded stand-in): emits a gate S-expression."""

    def requires(self, gate):
        return wf_filler(self) and isinstance(gate, GateStatement)

    def ensures(self, gate, result):
        return isinstance(result, list) and len(result) >= 2 and result[0] == "gate"

    raises_only = ("JaqalError",)
