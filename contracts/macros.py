"""C04: macro expansion - structural contracts (flags, counts, arity, substitution of parameters)."""
from pyvc.dsl import *
from jaqalpaq.core.block import BlockStatement, LoopStatement
from jaqalpaq.core.gate import GateStatement
from jaqalpaq.core.macro import Macro
from jaqalpaq.core.gatedef import AbstractGate
from jaqalpaq.core.parameter import Parameter, AnnotatedValue, ParamType
from jaqalpaq.core.register import NamedQubit, Register
from jaqalpaq.core.algorithm.expand_macros import MacroExpander, GateReplacer
from jaqalpaq.error import JaqalError
from contracts_subcircuits import wf_stmt
from contracts_gates import plain_value


@contract("core.algorithm.expand_macros:filter_float", props=["C04"])
class FilterFloat:
    def requires(value):
        return True

    def ensures(value, result):
        return (implies(is_float(value) and value == int(value), is_int(result) and result == int(value))
                and implies(not (is_float(value) and value == int(value)), same(result, value)))

    raises_only = ()


@contract("core.algorithm.expand_macros:GateReplacer.visit_Parameter", props=["C04"])
class ReplParam:
    """a macro parameter is replaced by the call's argument of the same name; unbound parameters stay"""

    def requires(self, param):
        return (type_is(self, GateReplacer) and isinstance(self.arguments, dict) and type_is(param, Parameter)
                and param._kind == ParamType.NONE
                and implies(has_key(self.arguments, param._name), plain_value(dict_lookup(self.arguments, param._name))))

    def ensures(self, param, result):
        return (implies(has_key(self.arguments, param._name), same(result, dict_lookup(self.arguments, param._name)))
                and implies(not has_key(self.arguments, param._name), same(result, param)))

    raises_only = ()


@assumed("core.algorithm.expand_macros:GateReplacer.visit_LoopStatement", props=["C04"])
class ReplLoop:
    def requires(self, loop):
        return type_is(self, GateReplacer) and isinstance(self.arguments, dict) and isinstance(self.macros, dict) and type_is(loop, LoopStatement) and wf_macro_stmt(loop)

    def ensures(self, loop, result):
        return type_is(result, LoopStatement)

    raises_only = ("JaqalError",)


@spec
def wf_macro_stmt(o) -> bool:
    """statement trees inside macro bodies: as wf_stmt, gate arguments are values/parameters/qubits"""
    return wf_stmt(o)


@spec
def same_kind_plain(s, parallel: bool) -> bool:
    """s is a block that is not a subcircuit and has the given kind"""
    return isinstance(s, BlockStatement) and s._parallel == parallel and not s._subcircuit


@spec
def nf(o) -> bool:
    """normal form (C10): no block directly inside a block of the same kind (a subcircuit block may sit in a
    sequential block).  Jaqal text cannot express such nesting, and expand_macros splices it away - so a result
    in normal form is both printable and a fixed point of the splice."""
    if isinstance(o, LoopStatement):
        return nf(o._statements)
    if isinstance(o, BlockStatement):
        return isinstance(o._statements, list) and forall_range(len(o._statements), lambda k: nf(o._statements[k]) and not same_kind_plain(o._statements[k], o._parallel))
    return True


@spec
def wf_macros(m) -> bool:
    """a macro table: names to Macro objects with list parameters and well-formed bodies"""
    return isinstance(m, dict) and forall_keys(m, lambda k: isinstance(dict_lookup(m, k), Macro) and dict_lookup(m, k)._name == k
                                              and isinstance(dict_lookup(m, k)._parameters, list) and wf_stmt(dict_lookup(m, k)._body))


@contract("core.algorithm.expand_macros:MacroExpander.visit_LoopStatement", props=["C04", "C11"])
class ExpLoop:
    """loop counts are carried over unchanged"""

    def requires(self, loop):
        return type_is(self, MacroExpander) and wf_macros(self.macros) and isinstance(loop, LoopStatement) and wf_stmt(loop)

    def ensures(self, loop, result):
        return type_is(result, LoopStatement) and same(result._iterations, loop._iterations)

    def ensures_normal_form(self, loop, result):
        return wf_stmt(result) and nf(result)

    raises_only = ("JaqalError",)


@contract("core.algorithm.expand_macros:MacroExpander.visit_BlockStatement", props=["C04", "C10"])
class ExpBlock:
    """block kind, subcircuit annotation and count are carried over unchanged"""

    def requires(self, block):
        return type_is(self, MacroExpander) and wf_macros(self.macros) and isinstance(block, BlockStatement) and wf_stmt(block)

    def ensures_kind(self, block, result):
        return type_is(result, BlockStatement) and result._parallel == block._parallel

    def ensures_subcircuit(self, block, result):
        return result._subcircuit == block._subcircuit and same(result._iterations, block._iterations)

    def ensures_normal_form(self, block, result):
        return wf_stmt(result) and nf(result)

    def inv_1(self, block, new_statements, _k):
        return isinstance(new_statements, list) and forall_range(len(new_statements), lambda j: wf_stmt(new_statements[j]) and nf(new_statements[j])
                                                                   and not same_kind_plain(new_statements[j], block._parallel))

    raises_only = ("JaqalError",)


@contract("core.algorithm.expand_macros:MacroExpander.visit_GateStatement", props=["C04", "C11"])
class ExpGate:
    def requires(self, gate):
        return (type_is(self, MacroExpander) and wf_macros(self.macros) and type_is(gate, GateStatement)
                and isinstance(gate._parameters, dict) and isinstance(gate._gate_def, AbstractGate))

    def ensures(self, gate, result):
        return wf_stmt(result) and nf(result)

    raises_only = ("JaqalError",)


@contract("core.algorithm.expand_macros:MacroExpander.visit_default", props=["C04", "C11"])
class ExpDefault:
    def requires(self, obj):
        return type_is(self, MacroExpander)

    def ensures(self, obj, result):
        return same(result, obj)

    raises_only = ()


@contract("core.algorithm.expand_macros:replace_gate", props=["C04", "C14"])
class ReplaceGate:
    """a call with the wrong number of arguments is rejected with JaqalError; a non-macro gate is returned as is"""

    def requires(gate, macros):
        return type_is(gate, GateStatement) and isinstance(gate._parameters, dict) and isinstance(gate._gate_def, AbstractGate) and wf_macros(macros)

    def ensures_native(gate, macros, result):
        return implies(not has_key(macros, gate._gate_def._name), same(result, gate))

    def ensures_normal_form(gate, macros, result):
        return wf_stmt(result) and nf(result)

    def raises_JaqalError_when(gate, macros):
        return has_key(macros, gate._gate_def._name) and len(gate._parameters) != len(dict_lookup(macros, gate._gate_def._name)._parameters)

    raises_only = ("JaqalError",)


@assumed("core.algorithm.expand_macros:GateReplacer.visit_Macro", props=["C04"])
class ReplMacroAssumed:
    """Assumed, not verified here (the substitution walk is covered by the bounded stand-in only):
    substituting a macro body yields a block and raises nothing but JaqalError."""

    def requires(self, macro):
        return type_is(self, GateReplacer) and isinstance(macro, Macro)

    def ensures(self, macro, result):
        return isinstance(result, BlockStatement) and wf_stmt(result) and nf(result)

    modifies = ("self.parameters",)
    raises_only = ("JaqalError",)
