"""C04: macro expansion - structural contracts (flags, counts, arity, substitution of parameters)."""
from pyvc.dsl import *
from jaqalpaq.core.block import BlockStatement, LoopStatement
from jaqalpaq.core.gate import GateStatement
from jaqalpaq.core.macro import Macro
from jaqalpaq.core.gatedef import AbstractGate
from jaqalpaq.core.parameter import Parameter, AnnotatedValue, ParamType
from jaqalpaq.core.constant import Constant
from jaqalpaq.core.register import NamedQubit, Register
from jaqalpaq.core.algorithm.expand_macros import MacroExpander, GateReplacer
from jaqalpaq.error import JaqalError
from contracts_subcircuits import wf_stmt
from contracts_gates import plain_value, wf_param
from contracts_registers import wf_reg, size_known, size_of
from contracts_equality import steq, pp_tree, pp_val


@contract("core.algorithm.expand_macros:filter_float", props=["C04"])
class FilterFloat:
    def requires(value):
        return True

    def ensures(value, result):
        return (implies(is_float(value) and value == int(value), is_int(result) and result == int(value))
                and implies(not (is_float(value) and value == int(value)), same(result, value)))

    raises_only = ()


@contract("core.algorithm.expand_macros:GateReplacer.visit_Parameter", props=["C04"])
class ReplParam:
    """a macro parameter is replaced by the call's argument of the same name; unbound parameters stay"""

    def requires(self, param):
        return (type_is(self, GateReplacer) and isinstance(self.arguments, dict) and type_is(param, Parameter)
                and param._kind == ParamType.NONE
                and implies(has_key(self.arguments, param._name), plain_value(dict_lookup(self.arguments, param._name))))

    def ensures(self, param, result):
        return (implies(has_key(self.arguments, param._name), same(result, dict_lookup(self.arguments, param._name)))
                and implies(not has_key(self.arguments, param._name), same(result, param)))

    raises_only = ()


@spec
def wf_macro_stmt(o) -> bool:
    """statement trees inside macro bodies: as wf_stmt, gate arguments are values/parameters/qubits"""
    return wf_stmt(o)


@spec
def same_kind_plain(s, parallel: bool) -> bool:
    """s is a block that is not a subcircuit and has the given kind"""
    return isinstance(s, BlockStatement) and s._parallel == parallel and not s._subcircuit


@spec
def nf(o) -> bool:
    """normal form (C10): no block directly inside a block of the same kind (a subcircuit block may sit in a
    sequential block).  Jaqal text cannot express such nesting, and expand_macros splices it away - so a result
    in normal form is both printable and a fixed point of the splice."""
    if isinstance(o, LoopStatement):
        return nf(o._statements)
    if isinstance(o, BlockStatement):
        return isinstance(o._statements, list) and forall_range(len(o._statements), lambda k: nf(o._statements[k]) and not same_kind_plain(o._statements[k], o._parallel))
    return True


@spec
def expanded(o, m) -> bool:
    """C04: the tree contains no call of a macro of table m, to any nesting depth"""
    if isinstance(o, LoopStatement):
        return expanded(o._statements, m)
    if isinstance(o, BlockStatement):
        return isinstance(o._statements, list) and forall_range(len(o._statements), lambda k: expanded(o._statements[k], m))
    return not (isinstance(o, GateStatement) and has_key(m, o._gate_def._name))


@spec
def wf_macros(m) -> bool:
    """a macro table: names to Macro objects with list parameters and well-formed bodies"""
    return isinstance(m, dict) and forall_keys(m, lambda k: isinstance(dict_lookup(m, k), Macro) and dict_lookup(m, k)._name == k
                                              and isinstance(dict_lookup(m, k)._parameters, list) and type_is(dict_lookup(m, k)._body, BlockStatement)
                                              and wf_stmt(dict_lookup(m, k)._body) and wf_body(dict_lookup(m, k)._body))


@spec
def wf_arg(a) -> bool:
    """a gate argument: a plain value; macro parameters are untyped (Jaqal cannot annotate them)"""
    return plain_value(a) and implies(type_is(a, Parameter), a._kind == ParamType.NONE)


@spec
def wf_count(c) -> bool:
    """a loop or subcircuit count inside a macro body: a literal, a let constant, or an untyped macro parameter"""
    return is_int(c) or type_is(c, Constant) or (type_is(c, Parameter) and c._kind == ParamType.NONE)


@spec
def wf_body(o) -> bool:
    """statement trees of macro bodies: wf_stmt with the counts typed"""
    if isinstance(o, LoopStatement):
        return type_is(o, LoopStatement) and wf_count(o._iterations) and type_is(o._statements, BlockStatement) and wf_body(o._statements)
    if isinstance(o, BlockStatement):
        return (type_is(o, BlockStatement) and isinstance(o._statements, list) and is_bool(o._parallel) and is_bool(o._subcircuit)
                and (same(o._iterations, 1) if not o._subcircuit else wf_count(o._iterations))
                and forall_range(len(o._statements), lambda k: wf_body(o._statements[k])))
    return (type_is(o, GateStatement) and isinstance(o._parameters, dict) and isinstance(o._gate_def, AbstractGate)
            and forall_keys(o._parameters, lambda k: wf_arg(dict_lookup(o._parameters, k)))
            and isinstance(o._gate_def._parameters, list)
            and forall_range(len(o._gate_def._parameters), lambda k: wf_param(o._gate_def._parameters[k]) and is_str(o._gate_def._parameters[k]._name)))


@spec
def wf_replacer(v) -> bool:
    return (type_is(v, GateReplacer) and isinstance(v.arguments, dict) and wf_macros(v.macros)
            and forall_keys(v.arguments, lambda k: wf_arg(dict_lookup(v.arguments, k))))


@contract("core.algorithm.expand_macros:GateReplacer.visit_default", props=["C04", "C10"])
class ReplDefault:
    def requires(self, obj):
        return type_is(self, GateReplacer)

    def ensures(self, obj, result):
        return same(result, obj)

    raises_only = ()


@spec
def subst_arg(v, a):
    """C04: what substitution puts in place of a non-qubit argument: the call's argument for a bound parameter,
    the argument itself otherwise"""
    if type_is(a, Parameter) and has_key(v.arguments, a._name):
        return dict_lookup(v.arguments, a._name)
    return a


@assumed("core.algorithm.expand_macros:GateReplacer.visit_NamedQubit", props=["C04"])
class ReplQubitAssumed:
    """Assumed (register/parameter indexing with its name formatting is outside pyvc's subset; the index
    arithmetic it ends in is Register.__getitem__ / NamedQubit.__init__, proved under C14): re-indexing a qubit
    gives a qubit."""

    def requires(self, qubit):
        return wf_replacer(self) and isinstance(qubit, NamedQubit)

    def ensures(self, qubit, result):
        return isinstance(result, NamedQubit)

    raises_only = ("JaqalError",)


@spec
def sub_reg(v, r):
    """the register a reference is written on after substitution: the call's argument for a bound parameter"""
    if type_is(r, Parameter) and has_key(v.arguments, r._name):
        return dict_lookup(v.arguments, r._name)
    return r


@spec
def sub_idx(v, i) -> int:
    """the index after substitution: the call's argument for a bound parameter (an integral float denotes that integer)"""
    if type_is(i, Parameter) and has_key(v.arguments, i._name):
        return int(dict_lookup(v.arguments, i._name))
    return i


@contract("core.algorithm.expand_macros:GateReplacer.visit_NamedQubit", props=["C04", "C10"], primary=False)
class ReplQubit:
    """call-by-substitution for qubit references, verified on the domain 'the substituted register is a declared register
    or alias and the substituted index is a number': r[j] in a macro body becomes <argument for r>[<argument for j>] - the
    qubit with exactly that source register and that index -, an out-of-range index is refused with JaqalError and nothing
    else escapes.  (Call sites use the weaker assumed contract above, whose domain also covers indices that stay symbolic.)"""

    def requires(self, qubit):
        return (wf_replacer(self) and type_is(qubit, NamedQubit)
                and (type_is(qubit._alias_from, Register) or (type_is(qubit._alias_from, Parameter) and qubit._alias_from._kind == ParamType.NONE
                                                              and is_str(qubit._alias_from._name) and has_key(self.arguments, qubit._alias_from._name)))
                and type_is(sub_reg(self, qubit._alias_from), Register) and wf_reg(sub_reg(self, qubit._alias_from))
                and (is_int(qubit._alias_index)
                     or (type_is(qubit._alias_index, Parameter) and qubit._alias_index._kind == ParamType.NONE and is_str(qubit._alias_index._name)
                         and has_key(self.arguments, qubit._alias_index._name)
                         and (is_int(dict_lookup(self.arguments, qubit._alias_index._name))
                              or (is_float(dict_lookup(self.arguments, qubit._alias_index._name))
                                  and dict_lookup(self.arguments, qubit._alias_index._name) == int(dict_lookup(self.arguments, qubit._alias_index._name)))))))

    def ensures(self, qubit, result):
        return (type_is(result, NamedQubit) and same(result._alias_from, sub_reg(self, qubit._alias_from))
                and is_int(result._alias_index) and result._alias_index == sub_idx(self, qubit._alias_index))

    def raises_JaqalError(self, qubit):
        return (size_known(sub_reg(self, qubit._alias_from))
                and not (0 <= sub_idx(self, qubit._alias_index) and sub_idx(self, qubit._alias_index) < size_of(sub_reg(self, qubit._alias_from))))

    raises_only = ("JaqalError",)


@contract("core.algorithm.expand_macros:GateReplacer.visit_GateStatement", props=["C04", "C10"])
class ReplGate:
    """substituting into a call: every non-qubit argument becomes subst_arg of it (a bound parameter is replaced
    by exactly the call's argument, everything else stays), the definition called is unchanged; a call to a
    native gate comes back as that one statement, a call to a macro as its (recursively substituted) body"""

    def requires(self, gate):
        return wf_replacer(self) and type_is(gate, GateStatement) and wf_body(gate)

    def ensures(self, gate, result):
        return wf_stmt(result) and nf(result)

    def ensures_native(self, gate, result):
        return implies(not has_key(self.macros, gate._gate_def._name),
                       type_is(result, GateStatement) and same(result._gate_def, gate._gate_def) and isinstance(result._parameters, dict)
                       and forall_range(dict_len(gate._parameters), lambda j: has_key(result._parameters, dict_key_at(gate._parameters, j))
                                        and implies(not isinstance(dict_val_at(gate._parameters, j), NamedQubit),
                                                    same(dict_lookup(result._parameters, dict_key_at(gate._parameters, j)),
                                                         subst_arg(self, dict_val_at(gate._parameters, j))))))

    def ensures_expanded(self, gate, result):
        return expanded(result, self.macros)

    def inv_1(self, gate, new_parameters, _k):
        return True

    raises_only = ("JaqalError",)


@contract("core.algorithm.expand_macros:GateReplacer.visit_LoopStatement", props=["C04", "C10"])
class ReplLoop:
    def requires(self, loop):
        return wf_replacer(self) and type_is(loop, LoopStatement) and wf_body(loop)

    def ensures(self, loop, result):
        return type_is(result, LoopStatement) and wf_stmt(result) and nf(result)

    def ensures_expanded(self, loop, result):
        return expanded(result, self.macros)

    raises_only = ("JaqalError",)


@contract("core.algorithm.expand_macros:GateReplacer.visit_BlockStatement", props=["C04", "C10"])
class ReplBlock:
    """substituting into a block keeps its kind and subcircuit annotation and yields normal form: the body of a
    macro called from this block joins the block when it has the block's kind (C10: idempotence, legal text)"""

    def requires(self, block):
        return wf_replacer(self) and type_is(block, BlockStatement) and wf_body(block)

    def ensures_kind(self, block, result):
        return type_is(result, BlockStatement) and result._parallel == block._parallel and result._subcircuit == block._subcircuit

    def ensures_normal_form(self, block, result):
        return wf_stmt(result) and nf(result)

    def inv_1(self, block, statements, _k):
        return isinstance(statements, list) and forall_range(len(statements), lambda j: wf_stmt(statements[j]) and nf(statements[j])
                                                               and expanded(statements[j], self.macros)
                                                               and not same_kind_plain(statements[j], block._parallel))

    def ensures_expanded(self, block, result):
        return expanded(result, self.macros)

    raises_only = ("JaqalError",)


@contract("core.algorithm.expand_macros:MacroExpander.visit_LoopStatement", props=["C04", "C11"])
class ExpLoop:
    """loop counts are carried over unchanged"""

    def requires(self, loop):
        return type_is(self, MacroExpander) and wf_macros(self.macros) and isinstance(loop, LoopStatement) and wf_stmt(loop) and wf_body(loop)

    def ensures(self, loop, result):
        return type_is(result, LoopStatement) and same(result._iterations, loop._iterations)

    def ensures_normal_form(self, loop, result):
        return wf_stmt(result) and nf(result)

    def ensures_expanded(self, loop, result):
        return expanded(result, self.macros)

    def ensures_fixed_point(self, loop, result):
        # C10, idempotence: on a tree without macro calls and in normal form the pass returns a structurally equal tree
        return implies(pp_tree(loop) and expanded(loop, self.macros) and nf(loop), steq(result, loop))

    uses_lemmas = ("SteqReflexive",)
    raises_only = ("JaqalError",)


@contract("core.algorithm.expand_macros:MacroExpander.visit_BlockStatement", props=["C04", "C10"])
class ExpBlock:
    """block kind, subcircuit annotation and count are carried over unchanged"""

    def requires(self, block):
        return type_is(self, MacroExpander) and wf_macros(self.macros) and isinstance(block, BlockStatement) and wf_stmt(block) and wf_body(block)

    def ensures_kind(self, block, result):
        return type_is(result, BlockStatement) and result._parallel == block._parallel

    def ensures_subcircuit(self, block, result):
        return result._subcircuit == block._subcircuit and same(result._iterations, block._iterations)

    def ensures_normal_form(self, block, result):
        return wf_stmt(result) and nf(result)

    def inv_1(self, block, new_statements, _k):
        return (isinstance(new_statements, list) and forall_range(len(new_statements), lambda j: wf_stmt(new_statements[j]) and nf(new_statements[j])
                                                                    and expanded(new_statements[j], self.macros)
                                                                    and not same_kind_plain(new_statements[j], block._parallel))
                # fixed point: as long as the input has no macro call and is in normal form nothing is spliced - one
                # statement per child, each structurally equal to its child
                and implies(pp_tree(block) and expanded(block, self.macros) and nf(block),
                            len(new_statements) == _k and forall_range(_k, lambda j: steq(new_statements[j], block._statements[j]))))

    def ensures_expanded(self, block, result):
        return expanded(result, self.macros)

    def ensures_fixed_point(self, block, result):
        # C10, idempotence of expand_macros as circuit equality: a second application returns an equal tree
        return implies(pp_tree(block) and expanded(block, self.macros) and nf(block), steq(result, block))

    uses_lemmas = ("SteqReflexive",)
    raises_only = ("JaqalError",)


@contract("core.algorithm.expand_macros:MacroExpander.visit_GateStatement", props=["C04", "C11"])
class ExpGate:
    def requires(self, gate):
        return (type_is(self, MacroExpander) and wf_macros(self.macros) and type_is(gate, GateStatement)
                and isinstance(gate._parameters, dict) and isinstance(gate._gate_def, AbstractGate) and wf_body(gate))

    def ensures(self, gate, result):
        return wf_stmt(result) and nf(result)

    def ensures_expanded(self, gate, result):
        return expanded(result, self.macros)

    def ensures_fixed_point(self, gate, result):
        return implies(pp_tree(gate) and expanded(gate, self.macros), steq(result, gate))

    uses_lemmas = ("SteqReflexive",)
    raises_only = ("JaqalError",)


@contract("core.algorithm.expand_macros:MacroExpander.visit_default", props=["C04", "C11"])
class ExpDefault:
    def requires(self, obj):
        return type_is(self, MacroExpander)

    def ensures(self, obj, result):
        return same(result, obj)

    raises_only = ()


@contract("core.algorithm.expand_macros:replace_gate", props=["C04", "C14"])
class ReplaceGate:
    """a call with the wrong number of arguments is rejected with JaqalError; a non-macro gate is returned as is"""

    def requires(gate, macros):
        return (type_is(gate, GateStatement) and isinstance(gate._parameters, dict) and isinstance(gate._gate_def, AbstractGate) and wf_macros(macros)
                and wf_body(gate))

    def ensures_native(gate, macros, result):
        return implies(not has_key(macros, gate._gate_def._name), same(result, gate))

    def ensures_normal_form(gate, macros, result):
        return wf_stmt(result) and nf(result)

    def raises_JaqalError_when(gate, macros):
        return has_key(macros, gate._gate_def._name) and len(gate._parameters) != len(dict_lookup(macros, gate._gate_def._name)._parameters)

    def ensures_expanded(gate, macros, result):
        return expanded(result, macros)

    raises_only = ("JaqalError",)


@contract("core.algorithm.expand_macros:GateReplacer.visit_Macro", props=["C04", "C10"])
class ReplMacro:
    """substituting a macro's body yields a well-formed block in normal form; only the replacer's own scratch
    field is written"""

    def requires(self, macro):
        return wf_replacer(self) and isinstance(macro, Macro) and type_is(macro._body, BlockStatement) and wf_body(macro._body)

    def ensures(self, macro, result):
        return isinstance(result, BlockStatement) and wf_stmt(result) and nf(result)

    modifies = ("self.parameters",)
    def ensures_expanded(self, macro, result):
        return expanded(result, self.macros)

    raises_only = ("JaqalError",)
