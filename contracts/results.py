"""C08 / C15: one readout per subcircuit visit; readouts carry the outcome in both encodings."""
from pyvc.dsl import *
from jaqalpaq.core.result import OutputParser, Readout, ReadoutSubcircuit
from jaqalpaq.error import JaqalError


@assumed("core.result:ReadoutSubcircuit.accept_readout", props=["C08"])
class AcceptReadoutAssumed:
    """Assumed (numpy array update is outside the modelled subset): attributes the readout to this subcircuit."""

    def requires(self, readout):
        return isinstance(self, ReadoutSubcircuit) and type_is(readout, Readout)

    modifies = ("readout._subcircuit",)

    def ensures(self, readout, result):
        return same(readout._subcircuit, self)

    raises_only = ()


@contract("core.result:OutputParser.process_trace", props=["C08", "C15"])
class OutputProcessTrace:
    """per visit: exactly one output is consumed, exactly one readout is appended, numbered with the running
    readout index, attributed to the subcircuit being visited; an integer output is taken as is"""

    def requires(self):
        return (type_is(self, OutputParser) and isinstance(self.subcircuits, list) and is_int(self.index) and 0 <= self.index
                and self.index < len(self.subcircuits) and isinstance(self.subcircuits[self.index], ReadoutSubcircuit)
                and isinstance(self.res, list) and is_int(self.readout_index) and is_iterator(self.data)
                and isinstance(iter_seq(self.data), list) and 0 <= iter_pos(self.data) and iter_pos(self.data) < len(iter_seq(self.data))
                and is_int(iter_seq(self.data)[iter_pos(self.data)]))

    modifies = ("self.data.@it_pos", "self.res", "self.readout_index")

    def ensures_consumes_one(self, result):
        return iter_pos(self.data) == old(iter_pos(self.data)) + 1

    def ensures_appends_one(self, result):
        return len(self.res) == old(len(self.res)) + 1 and self.readout_index == old(self.readout_index) + 1

    def ensures_readout_type(self, result):
        return type_is(self.res[old(len(self.res))], Readout)

    def ensures_readout_index(self, result):
        return self.res[old(len(self.res))]._index == old(self.readout_index)

    def ensures_readout_value(self, result):
        return self.res[old(len(self.res))]._result == old(iter_seq(self.data)[iter_pos(self.data)])

    def ensures_readout_attribution(self, result):
        return same(self.res[old(len(self.res))]._subcircuit, old(self.subcircuits[self.index]))

    raises_only = ()


from jaqalpaq.core.result import Subcircuit
from jaqalpaq.core.algorithm.walkers import Trace
from jaqalpaq.ipc.ipc import IpcSubcircuit


@contract("core.result:Readout.as_str", props=["C15"])
class ReadoutAsStr:
    """C15: the string form has exactly n characters and character j is '1' exactly when bit j of the integer
    form is set - qubit 0 is the least significant bit and the leftmost character"""

    def requires(self):
        return (type_is(self, Readout) and is_int(self._result) and isinstance(self._subcircuit, Subcircuit)
                and not isinstance(self._subcircuit, IpcSubcircuit) and type_is(self._subcircuit._trace, Trace)
                and isinstance(self._subcircuit._trace.used_qubits, list) and len(self._subcircuit._trace.used_qubits) >= 1
                and 0 <= self._result and self._result < pow2(len(self._subcircuit._trace.used_qubits)))

    def ensures_length(self, result):
        return is_str(result) and str_len(result) == len(self._subcircuit._trace.used_qubits)

    def ensures_little_endian(self, result):
        return forall_range(len(self._subcircuit._trace.used_qubits),
                            lambda j: (result[j] == "1" or result[j] == "0") and ((result[j] == "1") == bit(self._result, j)))

    raises_only = ()
