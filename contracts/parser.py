"""C16 / C02 / C01: the parser's error path and the generator's leaf functions."""
from pyvc.dsl import *
from jaqalpaq.parser.slyparse import JaqalParser, JaqalLexer, JaqalParseError
from jaqalpaq.core.register import Register, NamedQubit
from jaqalpaq.core.parameter import AnnotatedValue
from jaqalpaq.error import JaqalError
from sly.lex import Token


@contract("parser.slyparse:JaqalParser.error", props=["C16", "C02"])
class ParserError:
    """a syntax error - also at the end of the input, where sly passes None - always surfaces as JaqalParseError"""

    def requires(self, token):
        return (type_is(self, JaqalParser) and (self._source_text is None or is_str(self._source_text)) and is_int(self._last_index)
                and self._last_index >= 0 and (token is None or (isinstance(token, Token) and is_int(token.index) and token.index >= 0 and is_int(token.lineno))))

    def raises_JaqalParseError(self, token):
        return True

    raises_only = ("JaqalParseError",)


@contract("parser.slyparse:JaqalParser.raise_error", props=["C16", "C02"])
class ParserRaiseError:
    def requires(self, message):
        return (type_is(self, JaqalParser) and (self._source_text is None or is_str(self._source_text)) and is_int(self._last_index)
                and self._last_index >= 0 and is_str(message))

    def raises_JaqalParseError(self, message):
        return True

    raises_only = ("JaqalParseError",)


@contract("parser.slyparse:JaqalParser.compute_col", props=["C16", "C02"])
class ComputeCol:
    """never raises; 0 without source text; otherwise a column >= 1 measured from the last newline before the index,
    and index 0 is a position like any other (it is not replaced by the last header position)"""

    def requires(self, index):
        return (type_is(self, JaqalParser) and (self._source_text is None or is_str(self._source_text)) and is_int(self._last_index)
                and self._last_index >= 0 and (index is None or (is_int(index) and index >= 0)))

    def ensures_no_text(self, index, result):
        return implies(self._source_text is None, result == 0)

    def ensures_positive(self, index, result):
        return implies(self._source_text is not None, is_int(result) and result >= 1)

    raises_only = ()


@contract("parser.slyparse:JaqalLexer.error", props=["C16", "C02"])
class LexerError:
    """an illegal character surfaces as JaqalParseError (not sly's LexError)"""

    def requires(self, token):
        return (type_is(self, JaqalLexer) and is_str(self.text) and is_int(self.lineno) and isinstance(token, Token)
                and is_int(token.index) and token.index >= 0 and is_str(token.value) and str_len(token.value) >= 1)

    def raises_JaqalParseError(self, token):
        return True

    raises_only = ("JaqalParseError",)


@contract("parser.slyparse:JaqalParseError.__init__", props=["C16"])
class ParseErrorInit:
    """the exception carries the line and column it was given"""

    def requires(self, source, line, column, msg):
        return type_is(self, JaqalParseError)

    modifies = ("self.line", "self.column")

    def ensures(self, source, line, column, msg, result):
        return same(self.line, line) and same(self.column, column)

    raises_only = ()


@contract("generator.generator:generate_jaqal_value", props=["C01"])
class GenValue:
    """identifiers are printed by name, numbers by str(); nothing else is printable"""

    def requires(val):
        return (is_int(val) or is_float(val)
                or ((isinstance(val, Register) or isinstance(val, NamedQubit) or isinstance(val, AnnotatedValue)) and is_str(val._name)))

    def ensures_named(val, result):
        return implies(not (is_int(val) or is_float(val)), same(result, val._name))

    def ensures_int(val, result):
        return implies(is_int(val), is_str(result) and result == str(val))

    def ensures_float(val, result):
        """a float is printed exactly as Python's str() prints it (the shape the NUMBER lemma is about: shortest
        round-tripping repr, exponent form included) - no reformatting"""
        return implies(is_float(val), is_str(result) and result == str(val))

    raises_only = ()


from jaqalpaq.core.block import BlockStatement
from jaqalpaq.core.constant import Constant
from jaqalpaq.core.parameter import Parameter, ParamType


@assumed("generator.generator:generate_jaqal_block_statements", props=["C01", "C20"])
class GenBlockStatementsAssumed:
    """Assumed: the text of the statements of a block is some string (its content is what the bounded round trip
    exercises); it raises nothing."""

    def ensures(block, depth, result):
        return is_str(result)

    raises_only = ()


@contract("generator.generator:generate_jaqal_block", props=["C01", "C20"])
class GenBlock:
    """the opening of a block as text: a subcircuit block is announced by the keyword, followed by its count exactly
    when the count is not the literal 1 (a count of 0, a let-valued count and a count that merely equals 1 as a let
    are all printed), then the bracket of the block's kind - so blocks that differ in annotation, count or kind
    print differently (C20) and the annotation survives the round trip (C01)"""

    def requires(statement, depth, indent_first_line):
        return (type_is(statement, BlockStatement) and is_bool(statement._parallel) and is_bool(statement._subcircuit)
                and (is_int(statement._iterations)
                     or (type_is(statement._iterations, Constant) and is_str(statement._iterations._name) and isinstance(statement._iterations._kind, ParamType)
                         and (is_int(statement._iterations._value) or is_float(statement._iterations._value)))
                     or (type_is(statement._iterations, Parameter) and is_str(statement._iterations._name) and isinstance(statement._iterations._kind, ParamType)))
                and is_int(depth) and depth >= 0 and is_bool(indent_first_line))

    def ensures_plain(statement, depth, indent_first_line, result):
        return implies(not statement._subcircuit and not indent_first_line,
                       is_str(result) and result.startswith("<\n" if statement._parallel else "{\n"))

    def ensures_subcircuit_one(statement, depth, indent_first_line, result):
        return implies(statement._subcircuit and not indent_first_line and same(statement._iterations, 1),
                       is_str(result) and result.startswith("subcircuit <\n" if statement._parallel else "subcircuit {\n"))

    def ensures_subcircuit_count(statement, depth, indent_first_line, result):
        return implies(statement._subcircuit and not indent_first_line and is_int(statement._iterations) and statement._iterations != 1,
                       is_str(result) and result.startswith("subcircuit " + str(statement._iterations) + " "))

    def ensures_subcircuit_let(statement, depth, indent_first_line, result):
        return implies(statement._subcircuit and not indent_first_line and isinstance(statement._iterations, AnnotatedValue),
                       is_str(result) and result.startswith("subcircuit " + statement._iterations._name + " "))

    raises_only = ()


@spec
def bound_text(b):
    """how an alias bound is printed: a literal by str(), a let by its name"""
    if is_int(b):
        return str(b)
    return b._name


@contract("generator.generator:notate_slice", props=["C01"])
class NotateSlice:
    """an alias slice is printed bound by bound: start (0 when absent), stop, and the stride WHENEVER one is given -
    a let-valued stride by its name even if its current value is 1 (it may be overridden later)"""

    def requires(s):
        return (isinstance(s, slice)
                and (s.start is None or is_int(s.start) or (type_is(s.start, Constant) and is_str(s.start._name)))
                and (is_int(s.stop) or (type_is(s.stop, Constant) and is_str(s.stop._name)))
                and (s.step is None or (is_int(s.step) and s.step != 0) or (type_is(s.step, Constant) and is_str(s.step._name))))

    def ensures_no_stride(s, result):
        return implies(s.step is None, is_str(result)
                       and result == ("0" if (s.start is None or same(s.start, 0)) else bound_text(s.start)) + ":" + bound_text(s.stop))

    def ensures_stride(s, result):
        return implies(s.step is not None, is_str(result)
                       and result == ("0" if (s.start is None or same(s.start, 0)) else bound_text(s.start)) + ":" + bound_text(s.stop) + ":" + bound_text(s.step))

    raises_only = ()
