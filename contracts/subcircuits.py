"""C09: subcircuit expansion, structural (relational) specification."""
from pyvc.dsl import *
from jaqalpaq.core.block import BlockStatement, LoopStatement
from jaqalpaq.core.gate import GateStatement
from jaqalpaq.core.gatedef import AbstractGate, GateDefinition
from jaqalpaq.core.algorithm.expand_subcircuits import SubcircuitExpander
from jaqalpaq.error import JaqalError
from jaqalpaq.core.circuit import Circuit
from jaqalpaq.core.macro import Macro
from contracts_gates import wf_gate


@spec
def wf_stmt(o) -> bool:
    """statement trees as the builder makes them: gates, loops over blocks, blocks of statements"""
    if isinstance(o, LoopStatement):
        return isinstance(o._statements, BlockStatement) and wf_stmt(o._statements)
    if isinstance(o, BlockStatement):
        return (isinstance(o._statements, list) and is_bool(o._parallel) and is_bool(o._subcircuit)
                and (o._subcircuit or same(o._iterations, 1))       # the constructor rejects anything else
                and forall_range(len(o._statements), lambda k: wf_stmt(o._statements[k])))
    return isinstance(o, GateStatement) and isinstance(o._parameters, dict) and isinstance(o._gate_def, AbstractGate)


@spec
def is_call0(g, d) -> bool:
    """g is the statement calling definition d with no arguments"""
    return type_is(g, GateStatement) and same(g._gate_def, d) and len(g._parameters) == 0


@spec
def xsub(o, r, pd, md) -> bool:
    """r is o with every subcircuit block replaced by a sequential block  pd() ... md()  (C09)"""
    if isinstance(o, LoopStatement):
        return type_is(r, LoopStatement) and same(r._iterations, o._iterations) and xsub(o._statements, r._statements, pd, md)
    if isinstance(o, BlockStatement):
        if o._subcircuit:
            return (type_is(r, BlockStatement) and r._parallel == o._parallel and not r._subcircuit and r._iterations == 1
                    and isinstance(r._statements, list) and len(r._statements) == len(o._statements) + 2
                    and is_call0(r._statements[0], pd) and is_call0(r._statements[len(o._statements) + 1], md)
                    and forall_range(len(o._statements), lambda k: xsub(o._statements[k], r._statements[k + 1], pd, md)))
        return (type_is(r, BlockStatement) and r._parallel == o._parallel and not r._subcircuit and r._iterations == 1
                and isinstance(r._statements, list) and len(r._statements) == len(o._statements)
                and forall_range(len(o._statements), lambda k: xsub(o._statements[k], r._statements[k], pd, md)))
    return same(r, o) or rebound(o, r)


@spec
def rebound(o, r) -> bool:
    """r is a macro call o re-targeted: a gate statement with the very same arguments (which definition it calls
    is pinned by XGate.ensures_rebound: the rebuilt macro stored under the call's name)"""
    return isinstance(o, GateStatement) and isinstance(o._gate_def, Macro) and type_is(r, GateStatement) and same(r._parameters, o._parameters)


@spec
def wf_gate0(g) -> bool:
    """a gate definition without parameters (what prepare_all / measure_all are)"""
    return isinstance(g, AbstractGate) and is_str(g._name) and isinstance(g._parameters, list) and len(g._parameters) == 0


@spec
def wf_expander(v) -> bool:
    return (type_is(v, SubcircuitExpander) and wf_gate0(v.prepare_def) and wf_gate0(v.measure_def)
            and len(v.prepare_def._parameters) == 0 and len(v.measure_def._parameters) == 0
            and isinstance(v.macros, dict))


@contract("core.gatedef:AbstractGate.__call__", props=["C09", "C18"])
class GateCall0:
    """calling a parameterless definition without arguments gives its statement (through AbstractGate.call's
    contract for the empty call)"""

    def requires(self, args, kwargs):
        return wf_gate0(self) and isinstance(args, tuple) and isinstance(kwargs, dict) and len(args) == 0 and len(kwargs) == 0

    def ensures(self, args, kwargs, result):
        return is_call0(result, self)

    raises_only = ()


@contract("core.algorithm.expand_subcircuits:SubcircuitExpander.visit_default", props=["C09", "C11", "C12"])
class XDefault:
    def requires(self, obj):
        return wf_expander(self) and not isinstance(obj, LoopStatement) and not isinstance(obj, BlockStatement)

    def ensures(self, obj, result):
        return xsub(obj, result, self.prepare_def, self.measure_def)

    raises_only = ()


@contract("core.algorithm.expand_subcircuits:SubcircuitExpander.visit_GateStatement", props=["C09", "C10", "C11", "C12"])
class XGate:
    """a call keeps its name and its arguments; a macro call is re-targeted at the rebuilt macro of that name,
    so the call and the circuit's macro table agree (C10: expand_macros afterwards sees the expanded body
    whichever definition it follows)"""

    def requires(self, gate):
        return (wf_expander(self) and type_is(gate, GateStatement) and isinstance(gate._parameters, dict) and isinstance(gate._gate_def, AbstractGate))

    def ensures(self, gate, result):
        return xsub(gate, result, self.prepare_def, self.measure_def)

    def ensures_rebound(self, gate, result):
        return implies(isinstance(gate._gate_def, Macro) and has_key(self.macros, gate._gate_def._name),
                       type_is(result, GateStatement) and same(result._gate_def, dict_lookup(self.macros, gate._gate_def._name))
                       and same(result._parameters, gate._parameters))

    def ensures_native(self, gate, result):
        return implies(not isinstance(gate._gate_def, Macro), same(result, gate))

    raises_only = ()


@contract("core.algorithm.expand_subcircuits:SubcircuitExpander.visit_LoopStatement", props=["C09", "C11", "C12"])
class XLoop:
    def requires(self, loop):
        return wf_expander(self) and isinstance(loop, LoopStatement) and wf_stmt(loop)

    def ensures(self, loop, result):
        return xsub(loop, result, self.prepare_def, self.measure_def)

    raises_only = ()


@contract("core.algorithm.expand_subcircuits:SubcircuitExpander.visit_BlockStatement", props=["C09", "C11", "C12"])
class XBlock:
    def requires(self, block):
        return wf_expander(self) and isinstance(block, BlockStatement) and wf_stmt(block)

    def ensures(self, block, result):
        return xsub(block, result, self.prepare_def, self.measure_def)

    raises_only = ()


@contract("core.algorithm.expand_subcircuits:SubcircuitExpander.process_subcircuit", props=["C09", "C11", "C12"])
class XSub:
    def requires(self, block):
        return wf_expander(self) and isinstance(block, BlockStatement) and wf_stmt(block) and block._subcircuit

    def ensures(self, block, result):
        return xsub(block, result, self.prepare_def, self.measure_def)

    def ensures_sequential(self, block, result):
        return implies(not block._parallel, not result._parallel)

    raises_only = ()


@contract("core.algorithm.expand_subcircuits:SubcircuitExpander.process_non_subcircuit_block", props=["C09", "C11", "C12"])
class XNonSub:
    def requires(self, block):
        return wf_expander(self) and isinstance(block, BlockStatement) and wf_stmt(block) and not block._subcircuit

    def ensures(self, block, result):
        return xsub(block, result, self.prepare_def, self.measure_def)

    raises_only = ()


@contract("core.algorithm.expand_subcircuits:_choose_bounding_gate", props=["C09"])
class ChooseBounding:
    """the caller's definition when one is supplied, else the circuit's native one, else a fresh one"""

    def requires(user_def, default_name, circuit):
        return ((user_def is None or is_str(user_def) or isinstance(user_def, AbstractGate)) and is_str(default_name)
                and type_is(circuit, Circuit) and isinstance(circuit._native_gates, dict))

    def ensures_user(user_def, default_name, circuit, result):
        return implies(isinstance(user_def, AbstractGate), same(result, user_def))

    def ensures_native(user_def, default_name, circuit, result):
        return (implies(is_str(user_def) and has_key(circuit._native_gates, user_def), same(result, dict_lookup(circuit._native_gates, user_def)))
                and implies(user_def is None and has_key(circuit._native_gates, default_name), same(result, dict_lookup(circuit._native_gates, default_name))))

    def ensures_fresh(user_def, default_name, circuit, result):
        return (implies(is_str(user_def) and not has_key(circuit._native_gates, user_def), type_is(result, GateDefinition) and result._name == user_def and len(result._parameters) == 0)
                and implies(user_def is None and not has_key(circuit._native_gates, default_name), type_is(result, GateDefinition) and result._name == default_name and len(result._parameters) == 0))

    raises_only = ()

