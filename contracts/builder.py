"""C07: the gate memo key determines the binding of every identifier a gate's arguments mention."""
from pyvc.dsl import *
from jaqalpaq.core.circuitbuilder import GateMemoizer


@spec
def entry_ok(arg, ctx, e) -> bool:
    """e records, for the argument `arg`, what every identifier nested in it is bound to in `ctx`
    (None for unbound identifiers and for non-identifiers)"""
    if is_str(arg):
        if has_key(ctx, arg):
            return same(e, dict_lookup(ctx, arg))
        return e is None
    if isinstance(arg, list) or isinstance(arg, tuple):
        return (isinstance(e, tuple) and len(e) == len(arg)
                and forall_range(len(arg), lambda k: entry_ok(arg[k], ctx, e[k])))
    return e is None


@contract("core.circuitbuilder:GateMemoizer._make_gate_memo_key.<locals>.make_context_entry", props=["C07", "C14"])
class MakeContextEntry:
    def requires(arg, context):
        return isinstance(context, dict)

    def ensures(arg, context, result):
        return entry_ok(arg, context, result)

    raises_only = ()


@spec
def hashed(obj, r) -> bool:
    """r is obj with every list or tuple, at any depth, replaced by a tuple of the same length and (recursively) the
    same elements - the argument text itself, in hashable form"""
    if isinstance(obj, list) or isinstance(obj, tuple):
        return isinstance(r, tuple) and len(r) == len(obj) and forall_range(len(obj), lambda k: hashed(obj[k], r[k]))
    return same(r, obj)


@contract("core.circuitbuilder:GateMemoizer._make_hashable", props=["C07", "C14"])
class MakeHashable:
    """the key component for the argument text keeps every element of the arguments, in order, at every depth"""

    def requires(cls, obj):
        return True

    def ensures(cls, obj, result):
        return hashed(obj, result)

    raises_only = ()


@contract("core.circuitbuilder:GateMemoizer._make_gate_memo_key", props=["C07", "C14"])
class MemoKey:
    """the key consists of the gate name, the argument text and, per argument, the context binding of every
    identifier mentioned in it at any nesting depth - so two uses share a memoized gate only if every identifier
    in their (identical) argument text denotes the same object in both scopes"""

    def requires(self, gate_name, gate_args, context):
        return type_is(self, GateMemoizer) and isinstance(gate_args, list) and isinstance(context, dict)

    def ensures_shape(self, gate_name, gate_args, context, result):
        return isinstance(result, tuple) and len(result) == 3 and same(result[0], gate_name)

    def ensures_text(self, gate_name, gate_args, context, result):
        return hashed(gate_args, result[1])

    def ensures_bindings(self, gate_name, gate_args, context, result):
        return (isinstance(result[2], tuple) and len(result[2]) == len(gate_args)
                and forall_range(len(gate_args), lambda k: entry_ok(gate_args[k], context, result[2][k])))

    raises_only = ()


from jaqalpaq.core.circuitbuilder import Builder


@contract("core.circuitbuilder:Builder.add_to_context", props=["C14", "C07"])
class AddToContext:
    """C14 (no identifier is defined twice): binding a name that the context already has is refused with JaqalError,
    exactly then; otherwise the context gains exactly this binding"""

    def requires(self, context, name, obj):
        return isinstance(context, dict) and is_str(name)

    modifies = ("context",)

    def raises_JaqalError(self, context, name, obj):
        return has_key(context, name)

    raises_only = ("JaqalError",)

    def ensures(self, context, name, obj, result):
        return has_key(context, name) and same(dict_lookup(context, name), obj)

    def ensures_others_kept(self, context, name, obj, result):
        return (forall_keys(context, lambda k: k == name or (old(has_key(context, k)) and same(dict_lookup(context, k), old(dict_lookup(context, k)))))
                and len(context) == old(len(context)) + 1)
