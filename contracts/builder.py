"""C07: the gate memo key determines the binding of every identifier a gate's arguments mention."""
from pyvc.dsl import *
from jaqalpaq.core.circuitbuilder import GateMemoizer


@spec
def entry_ok(arg, ctx, e) -> bool:
    """e records, for the argument `arg`, what every identifier nested in it is bound to in `ctx`
    (None for unbound identifiers and for non-identifiers)"""
    if is_str(arg):
        if has_key(ctx, arg):
            return same(e, dict_lookup(ctx, arg))
        return e is None
    if isinstance(arg, list) or isinstance(arg, tuple):
        return (isinstance(e, tuple) and len(e) == len(arg)
                and forall_range(len(arg), lambda k: entry_ok(arg[k], ctx, e[k])))
    return e is None


@contract("core.circuitbuilder:GateMemoizer._make_gate_memo_key.<locals>.make_context_entry", props=["C07", "C14", "C20"])
class MakeContextEntry:
    def requires(arg, context):
        return isinstance(context, dict)

    def ensures(arg, context, result):
        return entry_ok(arg, context, result)

    raises_only = ()


@spec
def hashed(obj, r) -> bool:
    """r is obj with every list or tuple, at any depth, replaced by a tuple of the same length and (recursively) the
    same elements - the argument text itself, in hashable form"""
    if isinstance(obj, list) or isinstance(obj, tuple):
        return isinstance(r, tuple) and len(r) == len(obj) and forall_range(len(obj), lambda k: hashed(obj[k], r[k]))
    return same(r, obj)


@contract("core.circuitbuilder:GateMemoizer._make_hashable", props=["C07", "C14", "C20"])
class MakeHashable:
    """the key component for the argument text keeps every element of the arguments, in order, at every depth"""

    def requires(cls, obj):
        return True

    def ensures(cls, obj, result):
        return hashed(obj, result)

    raises_only = ()


@contract("core.circuitbuilder:GateMemoizer._make_gate_memo_key", props=["C07", "C14", "C20"])
class MemoKey:
    """the key consists of the gate name, the argument text and, per argument, the context binding of every
    identifier mentioned in it at any nesting depth - so two uses share a memoized gate only if every identifier
    in their (identical) argument text denotes the same object in both scopes"""

    def requires(self, gate_name, gate_args, context):
        return type_is(self, GateMemoizer) and isinstance(gate_args, list) and isinstance(context, dict)

    def ensures_shape(self, gate_name, gate_args, context, result):
        return isinstance(result, tuple) and len(result) == 3 and same(result[0], gate_name)

    def ensures_text(self, gate_name, gate_args, context, result):
        return hashed(gate_args, result[1])

    def ensures_bindings(self, gate_name, gate_args, context, result):
        return (isinstance(result[2], tuple) and len(result[2]) == len(gate_args)
                and forall_range(len(gate_args), lambda k: entry_ok(gate_args[k], context, result[2][k])))

    raises_only = ()


from jaqalpaq.core.circuitbuilder import Builder


@contract("core.circuitbuilder:Builder.add_to_context", props=["C14", "C07"])
class AddToContext:
    """C14 (no identifier is defined twice): binding a name that the context already has is refused with JaqalError,
    exactly then; otherwise the context gains exactly this binding"""

    def requires(self, context, name, obj):
        return isinstance(context, dict) and is_str(name)

    modifies = ("context",)

    def raises_JaqalError(self, context, name, obj):
        return has_key(context, name)

    raises_only = ("JaqalError",)

    def ensures(self, context, name, obj, result):
        return has_key(context, name) and same(dict_lookup(context, name), obj)

    def ensures_others_kept(self, context, name, obj, result):
        return (forall_keys(context, lambda k: k == name or (old(has_key(context, k)) and same(dict_lookup(context, k), old(dict_lookup(context, k)))))
                and len(context) == old(len(context)) + 1)


# ---------------------------------------------------------------------------------------------------------------
# The builder's statement-level methods (C14, C16, C05, C20): what is built from an S-expression.
from jaqalpaq.core.block import BlockStatement, LoopStatement
from jaqalpaq.core.constant import Constant
from jaqalpaq.core.parameter import Parameter
from jaqalpaq.core.register import Register, NamedQubit
from jaqalpaq.core.circuitbuilder import SExpression


@spec
def build_fails(b, expression, context, gate_context) -> bool:
    """abstract: whether building a nested S-expression is refused (unknown to the callers' proofs)"""
    ...


@assumed("core.circuitbuilder:Builder.build", props=["C14", "C16", "C05", "C20"])
class BuildAssumed:
    """ASSUMED at the call sites inside the build_* methods (Builder.build dispatches with getattr on a computed method
    name, which pyvc cannot follow); read off its first lines: an identifier denotes what the context binds it to - and
    is refused with JaqalError when unbound -, a number, None or an already built object is returned as it is; only
    JaqalError escapes.  The leaf cases are VERIFIED below (BuildLeaf); what a nested S-expression builds is unknown."""

    def requires(self, expression, context, gate_context):
        return type_is(self, Builder)

    def ensures_identifier(self, expression, context, gate_context, result):
        return implies(is_str(expression) and isinstance(context, dict), has_key(context, expression) and same(result, dict_lookup(context, expression)))

    def ensures_leaf(self, expression, context, gate_context, result):
        return implies(is_int(expression) or is_float(expression) or is_none(expression), same(result, expression))

    def raises_JaqalError(self, expression, context, gate_context):
        return ((is_str(expression) and not has_key(context, expression))
                or (not (is_str(expression) or is_int(expression) or is_float(expression) or is_none(expression))
                    and build_fails(self, expression, context, gate_context)))

    raises_only = ("JaqalError",)


@contract("core.circuitbuilder:Builder.build", props=["C14", "C07"], primary=False)
class BuildLeaf:
    """verified on the leaf domain (identifiers, numbers, None): an identifier denotes exactly what the context it is
    looked up in binds it to (C07: one lookup, no fallback to another scope), an unbound one is refused with JaqalError
    (C14: no undefined identifier is accepted), numbers and None pass through unchanged"""

    def requires(self, expression, context, gate_context):
        return (type_is(self, Builder) and isinstance(context, dict) and isinstance(gate_context, dict)
                and (is_str(expression) or is_int(expression) or is_float(expression) or is_none(expression)))

    def ensures_identifier(self, expression, context, gate_context, result):
        return implies(is_str(expression), same(result, dict_lookup(context, expression)))

    def ensures_leaf(self, expression, context, gate_context, result):
        return implies(not is_str(expression), same(result, expression))

    def raises_JaqalError(self, expression, context, gate_context):
        return is_str(expression) and not has_key(context, expression)

    raises_only = ("JaqalError",)


@contract("core.circuitbuilder:Builder.build_loop", props=["C14", "C16", "C05"])
class BuildLoop:
    """a loop is built only with a count that is an integer, a let whose value is not a float, or a macro parameter -
    anything else (a float, a float-valued let, a register, a qubit) is refused with JaqalError - and its body is what
    the block expression builds"""

    def requires(self, sexpression, context, gate_context):
        return (type_is(self, Builder) and type_is(sexpression, SExpression) and isinstance(sexpression._expression, list)
                and len(sexpression._expression) == 3 and isinstance(context, dict) and isinstance(gate_context, dict))

    def ensures(self, sexpression, context, gate_context, result):
        return (type_is(result, LoopStatement)
                and (is_intlike(result._iterations) or isinstance(result._iterations, Parameter)
                     or (isinstance(result._iterations, Constant) and not is_float(result._iterations._value))))

    def ensures_literal_count(self, sexpression, context, gate_context, result):
        return implies(is_int(sexpression._expression[1]), same(result._iterations, sexpression._expression[1]))

    def ensures_named_count(self, sexpression, context, gate_context, result):
        return implies(is_str(sexpression._expression[1]), same(result._iterations, dict_lookup(context, sexpression._expression[1])))

    raises_only = ("JaqalError",)


@contract("core.circuitbuilder:as_integer", props=["C14", "C05"])
class AsInteger:
    """a number with an integral value becomes that int; everything else (also what is not a number) is returned as it is"""

    def requires(value):
        return is_int(value) or is_float(value) or is_none(value) or is_str(value)

    def ensures(value, result):
        return (implies(is_int(value), same(result, value))
                and implies(is_float(value) and value == int(value), is_int(result) and result == value)
                and implies(is_float(value) and value != int(value), same(result, value))
                and implies(is_none(value) or is_str(value), same(result, value)))

    raises_only = ()


@contract("core.circuitbuilder:Builder.build_let", props=["C05", "C20"])
class BuildLet:
    """let NAME VALUE builds the constant of that name and that value (an integral float as the integer); a let needs
    exactly a name and a numeric value, else JaqalError"""

    def requires(self, sexpression, _context, _gate_context):
        return (type_is(self, Builder) and type_is(sexpression, SExpression) and isinstance(sexpression._expression, list)
                and len(sexpression._expression) >= 1
                and implies(len(sexpression._expression) == 3, is_int(sexpression._expression[2]) or is_float(sexpression._expression[2])))

    def ensures(self, sexpression, _context, _gate_context, result):
        return (type_is(result, Constant) and same(result._name, sexpression._expression[1])
                and (is_int(result._value) or is_float(result._value)) and result._value == sexpression._expression[2]
                and implies(is_float(sexpression._expression[2]) and sexpression._expression[2] == int(sexpression._expression[2]), is_int(result._value)))

    def raises_JaqalError(self, sexpression, _context, _gate_context):
        return len(sexpression._expression) != 3

    raises_only = ("JaqalError",)


from contracts_registers import wf_reg, size_known, size_of, size_val, kinded
from jaqalpaq.core.gatedef import AbstractGate, GateDefinition


@contract("core.circuitbuilder:Builder.build_array_item", props=["C14", "C07", "C16"])
class BuildArrayItem:
    """NAME[INDEX] with a literal index: the name denotes what the context of the use binds it to (C07), which must be a
    register, alias or macro parameter - anything else is refused with JaqalError (C14) -; for a register or alias the
    result is the qubit with exactly that source and index, refused with JaqalError when the index is out of range"""

    def requires(self, sexpression, context, gate_context):
        return (type_is(self, Builder) and type_is(sexpression, SExpression) and isinstance(sexpression._expression, list)
                and len(sexpression._expression) == 3 and is_str(sexpression._expression[1]) and is_int(sexpression._expression[2])
                and isinstance(context, dict) and isinstance(gate_context, dict)
                and implies(has_key(context, sexpression._expression[1]) and type_is(dict_lookup(context, sexpression._expression[1]), Register),
                            wf_reg(dict_lookup(context, sexpression._expression[1])))
                and implies(has_key(context, sexpression._expression[1]), not type_is(dict_lookup(context, sexpression._expression[1]), Parameter)))

    def ensures(self, sexpression, context, gate_context, result):
        return (type_is(result, NamedQubit) and same(result._alias_from, dict_lookup(context, sexpression._expression[1]))
                and same(result._alias_index, sexpression._expression[2]))

    def raises_JaqalError(self, sexpression, context, gate_context):
        return (not has_key(context, sexpression._expression[1])
                or not type_is(dict_lookup(context, sexpression._expression[1]), Register)
                or (size_known(dict_lookup(context, sexpression._expression[1]))
                    and not (0 <= sexpression._expression[2] and sexpression._expression[2] < size_of(dict_lookup(context, sexpression._expression[1])))))

    raises_only = ("JaqalError",)


@contract("core.circuitbuilder:Builder.get_gate_definition", props=["C14", "C16"])
class GetGateDefinition:
    """a gate name denotes the definition the gate context binds it to; with a native gate set in force (or pulse
    autoloading on) an unknown gate is refused with JaqalError - only without both is an anonymous definition with one
    parameter per argument created, and then it is recorded so that later uses share it"""

    def requires(self, name, arg_count, gate_context):
        return (type_is(self, Builder) and is_str(name) and is_int(arg_count) and arg_count >= 0 and isinstance(gate_context, dict)
                and is_bool(self.autoload_pulses)
                # domain: the gate is known, or a gate set is in force (the anonymous-definition branch, which allocates
                # parameters through ParamType.make, is outside this contract)
                and (has_key(gate_context, name) or self.inject_pulses is not None or self.autoload_pulses))

    def ensures_known(self, name, arg_count, gate_context, result):
        return same(result, dict_lookup(gate_context, name)) and isinstance(result, AbstractGate)

    def raises_JaqalError(self, name, arg_count, gate_context):
        return ((has_key(gate_context, name) and not isinstance(dict_lookup(gate_context, name), AbstractGate))
                or (not has_key(gate_context, name) and (self.inject_pulses is not None or self.autoload_pulses)))

    raises_only = ("JaqalError",)


@contract("core.circuitbuilder:Builder.build_register", props=["C14", "C16"])
class BuildRegister:
    """register NAME[SIZE] with a literal size builds the declared register of that name and that many qubits; a
    non-integral size is refused with JaqalError (F43)"""

    def requires(self, sexpression, context, gate_context):
        return (type_is(self, Builder) and type_is(sexpression, SExpression) and isinstance(sexpression._expression, list)
                and len(sexpression._expression) == 3 and is_str(sexpression._expression[1])
                and (is_int(sexpression._expression[2]) or is_float(sexpression._expression[2]))
                and isinstance(context, dict) and isinstance(gate_context, dict))

    def ensures(self, sexpression, context, gate_context, result):
        return (type_is(result, Register) and same(result._name, sexpression._expression[1]) and result._alias_from is None
                and result._alias_slice is None and is_int(result._size) and result._size == sexpression._expression[2])

    def raises_JaqalError(self, sexpression, context, gate_context):
        return is_float(sexpression._expression[2]) and sexpression._expression[2] != int(sexpression._expression[2])

    raises_only = ("JaqalError",)


@contract("core.circuitbuilder:Builder.build_map", props=["C14", "C06", "C01"])
class BuildMapSlice:
    """map NAME SRC[START:STOP:STEP] with literal or omitted bounds: SRC denotes what the context binds it to, which must
    be a register or alias (else JaqalError); the alias built has exactly that source and the slice with an omitted
    start read as 0, an omitted stop as the source's size and an omitted step as 1"""

    def requires(self, sexpression, context, gate_context):
        return (type_is(self, Builder) and type_is(sexpression, SExpression) and isinstance(sexpression._expression, list)
                and len(sexpression._expression) == 6 and is_str(sexpression._expression[1]) and is_str(sexpression._expression[2])
                and (is_none(sexpression._expression[3]) or is_int(sexpression._expression[3]))
                and (is_none(sexpression._expression[4]) or is_int(sexpression._expression[4]))
                and (is_none(sexpression._expression[5]) or is_int(sexpression._expression[5]))
                and isinstance(context, dict) and isinstance(gate_context, dict)
                and implies(has_key(context, sexpression._expression[2]) and type_is(dict_lookup(context, sexpression._expression[2]), Register),
                            wf_reg(dict_lookup(context, sexpression._expression[2])) and size_known(dict_lookup(context, sexpression._expression[2]))
                            and kinded(size_val(dict_lookup(context, sexpression._expression[2])))))

    def ensures_source(self, sexpression, context, gate_context, result):
        return (type_is(result, Register) and same(result._name, sexpression._expression[1]) and result._size is None
                and same(result._alias_from, dict_lookup(context, sexpression._expression[2])) and isinstance(result._alias_slice, slice))

    def ensures_start(self, sexpression, context, gate_context, result):
        return (implies(is_none(sexpression._expression[3]), same(result._alias_slice.start, 0))
                and implies(is_int(sexpression._expression[3]), same(result._alias_slice.start, sexpression._expression[3])))

    def ensures_stop_step(self, sexpression, context, gate_context, result):
        return (implies(is_int(sexpression._expression[4]), same(result._alias_slice.stop, sexpression._expression[4]))
                and implies(is_none(sexpression._expression[5]), same(result._alias_slice.step, 1))
                and implies(is_int(sexpression._expression[5]), same(result._alias_slice.step, sexpression._expression[5])))

    def raises_JaqalError_when(self, sexpression, context, gate_context):
        return not has_key(context, sexpression._expression[2]) or not type_is(dict_lookup(context, sexpression._expression[2]), Register)

    raises_only = ("JaqalError",)


@contract("core.circuitbuilder:Builder.build_block", props=["C05", "C20", "C16"])
class BuildBlock:
    """a sequential / parallel block expression builds a block of exactly that kind, not a subcircuit, with one statement
    per argument; the block-context marker put into the context is removed again on every exit"""

    def requires(self, sexpression, context, gate_context, is_parallel):
        return (type_is(self, Builder) and type_is(sexpression, SExpression) and isinstance(sexpression._expression, list)
                and len(sexpression._expression) >= 1 and isinstance(context, dict) and isinstance(gate_context, dict) and is_bool(is_parallel))

    modifies = ("context",)

    def ensures(self, sexpression, context, gate_context, is_parallel, result):
        return (type_is(result, BlockStatement) and result._parallel == is_parallel and result._subcircuit == False and same(result._iterations, 1)
                and isinstance(result._statements, list) and len(result._statements) == len(sexpression._expression) - 1)

    raises_only = ("JaqalError",)


@contract("core.circuitbuilder:Builder.build_subcircuit_block", props=["C05", "C20", "C09", "C16"])
class BuildSubcircuitBlock:
    """a subcircuit block expression builds a SEQUENTIAL block annotated as subcircuit, with one statement per argument
    after the count; the count is exactly what was written - 1 only when it was left out (the empty string), a literal
    (0 included) as that literal, a name as what the context binds it to -, and a count that is not a number, let or
    parameter is refused with JaqalError, as is a subcircuit block nested in a subcircuit or parallel block"""

    def requires(self, sexpression, context, gate_context):
        return (type_is(self, Builder) and type_is(sexpression, SExpression) and isinstance(sexpression._expression, list)
                and len(sexpression._expression) >= 2 and isinstance(context, dict) and isinstance(gate_context, dict)
                and (is_int(sexpression._expression[1]) or is_str(sexpression._expression[1])))

    modifies = ("context",)

    def ensures_kind(self, sexpression, context, gate_context, result):
        return (type_is(result, BlockStatement) and result._parallel == False and result._subcircuit == True
                and isinstance(result._statements, list) and len(result._statements) == len(sexpression._expression) - 2)

    def ensures_default_count(self, sexpression, context, gate_context, result):
        return implies(is_str(sexpression._expression[1]) and sexpression._expression[1] == "", same(result._iterations, 1))

    def ensures_literal_count(self, sexpression, context, gate_context, result):
        return implies(is_int(sexpression._expression[1]), same(result._iterations, sexpression._expression[1]))

    def ensures_named_count(self, sexpression, context, gate_context, result):
        # (a count written as the builder's own marker name __in_context_subcircuit__ would read the marker: excluded)
        return implies(is_str(sexpression._expression[1]) and sexpression._expression[1] != "" and sexpression._expression[1] != "__in_context_subcircuit__",
                       same(result._iterations, old(dict_lookup(context, sexpression._expression[1]))))

    raises_only = ("JaqalError",)
