"""C17: Q-syntax - fresh names and the implicit prepare/measure rule."""
from pyvc.dsl import *
from jaqalpaq.qsyntax.qsyntax import Namer, QGateCall, QBlock, QSubcircuitBlock, QSequentialBlock, QParallelBlock, QLoop


@contract("qsyntax.qsyntax:Namer._choose_name", props=["C17"])
class ChooseName:
    """(partial correctness) the name handed out is not one of the user's names, and the index only moves forward"""

    def requires(self, template, index, user_names):
        return type_is(self, Namer) and is_str(template) and is_int(index) and isinstance(user_names, list)

    def ensures_fresh(self, template, index, user_names, result):
        return isinstance(result, tuple) and len(result) == 2 and not (result[0] in user_names)

    def ensures_index(self, template, index, user_names, result):
        return is_int(result[1]) and result[1] > index

    def inv_1(self, template, index, user_names, _k):
        return is_int(index) and index >= old(index)

    raises_only = ()


@spec
def swp(stmt, name) -> bool:
    """C17: the statement already begins with a prepare or a subcircuit"""
    if isinstance(stmt, QSubcircuitBlock):
        return True
    if type_is(stmt, QGateCall):
        return stmt.name == name
    if isinstance(stmt, QBlock):
        return len(stmt.statements) > 0 and swp(stmt.statements[0], name)
    return False


@spec
def wf_q(stmt) -> bool:
    if type_is(stmt, QGateCall):
        return is_str(stmt.name)
    if isinstance(stmt, QBlock):
        return isinstance(stmt.statements, list) and forall_range(len(stmt.statements), lambda k: wf_q(stmt.statements[k]))
    return False


@contract("qsyntax.qsyntax:QGateCall.starts_with_prepare", props=["C17"])
class GateSWP:
    def requires(self, name):
        return type_is(self, QGateCall) and is_str(self.name) and is_str(name)

    def ensures(self, name, result):
        return is_bool(result) and result == swp(self, name)

    raises_only = ()


@contract("qsyntax.qsyntax:QSubcircuitBlock.starts_with_prepare", props=["C17"])
class SubSWP:
    def requires(self, _name):
        return type_is(self, QSubcircuitBlock)

    def ensures(self, _name, result):
        return same(result, True) and swp(self, _name)

    raises_only = ()


@contract("qsyntax.qsyntax:QBlock.starts_with_prepare", props=["C17"], also_for=["QSequentialBlock", "QParallelBlock", "QLoop"])
class BlockSWP:
    """a block begins with a prepare exactly when its first statement does (recursively through nested blocks and loops)"""

    def requires(self, name):
        return isinstance(self, QBlock) and not isinstance(self, QSubcircuitBlock) and wf_q(self) and is_str(name)

    def ensures(self, name, result):
        return is_bool(result) and result == swp(self, name)

    raises_only = ()


# ---------------------------------------------------------------- C17: the auto-namer as a whole
from jaqalpaq.qsyntax.qsyntax import QConstant, QRegister


@contract("qsyntax.qsyntax:Namer.name_let", props=["C17"])
class NameLet:
    """a named let keeps its name; an anonymous one gets a name that is none of the names to avoid, and the
    counter moves on (so the next anonymous let gets a different name)"""

    def requires(self, let):
        return (type_is(self, Namer) and isinstance(self.let_names, list) and is_int(self.next_let) and isinstance(let, QConstant)
                and (let.name is None or is_str(let.name)))

    modifies = ("self.next_let",)

    def ensures_named(self, let, result):
        return implies(let.name is not None, same(result, let.name) and self.next_let == old(self.next_let))

    def ensures_anonymous(self, let, result):
        return implies(let.name is None, not (result in self.let_names) and self.next_let > old(self.next_let))

    raises_only = ()


@contract("qsyntax.qsyntax:Namer.name_register", props=["C17"])
class NameRegister:
    def requires(self, register):
        return (type_is(self, Namer) and isinstance(self.register_names, list) and is_int(self.next_register) and isinstance(register, QRegister)
                and (register.name is None or is_str(register.name)))

    modifies = ("self.next_register",)

    def ensures_named(self, register, result):
        return implies(register.name is not None, same(result, register.name) and self.next_register == old(self.next_register))

    def ensures_anonymous(self, register, result):
        return implies(register.name is None, not (result in self.register_names) and self.next_register > old(self.next_register))

    raises_only = ()


@contract("qsyntax.qsyntax:Namer.__init__", props=["C17"])
class NamerInit:
    """lets and registers share one namespace: BOTH lists of names to avoid hold the user's names of both kinds
    (anonymous objects, whose name is None, left out); the counters start at 0"""

    def requires(self, let_names, register_names):
        return type_is(self, Namer) and isinstance(let_names, list) and isinstance(register_names, list)

    modifies = ("self.let_names", "self.register_names", "self.next_let", "self.next_register")

    def ensures_lists(self, let_names, register_names, result):
        return (isinstance(self.let_names, list) and isinstance(self.register_names, list)
                and forall_range(len(let_names), lambda k: implies(let_names[k] is not None, let_names[k] in self.let_names and let_names[k] in self.register_names))
                and forall_range(len(register_names), lambda k: implies(register_names[k] is not None, register_names[k] in self.let_names and register_names[k] in self.register_names)))

    def ensures_counters(self, let_names, register_names, result):
        return self.next_let == 0 and self.next_register == 0

    raises_only = ()
