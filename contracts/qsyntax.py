"""C17: Q-syntax - fresh names and the implicit prepare/measure rule."""
from pyvc.dsl import *
from jaqalpaq.qsyntax.qsyntax import Namer, QGateCall, QBlock, QSubcircuitBlock, QSequentialBlock, QParallelBlock, QLoop


@contract("qsyntax.qsyntax:Namer._choose_name", props=["C17"])
class ChooseName:
    """(partial correctness) the name handed out is not one of the user's names, and the index only moves forward"""

    def requires(self, template, index, user_names):
        return type_is(self, Namer) and is_str(template) and is_int(index) and isinstance(user_names, list)

    def ensures_fresh(self, template, index, user_names, result):
        return isinstance(result, tuple) and len(result) == 2 and not (result[0] in user_names)

    def ensures_index(self, template, index, user_names, result):
        return is_int(result[1]) and result[1] > index

    def inv_1(self, template, index, user_names, _k):
        return is_int(index) and index >= old(index)

    raises_only = ()


@spec
def swp(stmt, name) -> bool:
    """C17: the statement already begins with a prepare or a subcircuit"""
    if isinstance(stmt, QSubcircuitBlock):
        return True
    if type_is(stmt, QGateCall):
        return stmt.name == name
    if isinstance(stmt, QBlock):
        return len(stmt.statements) > 0 and swp(stmt.statements[0], name)
    return False


@spec
def wf_q(stmt) -> bool:
    if type_is(stmt, QGateCall):
        return is_str(stmt.name)
    if isinstance(stmt, QBlock):
        return isinstance(stmt.statements, list) and forall_range(len(stmt.statements), lambda k: wf_q(stmt.statements[k]))
    return False


@contract("qsyntax.qsyntax:QGateCall.starts_with_prepare", props=["C17"])
class GateSWP:
    def requires(self, name):
        return type_is(self, QGateCall) and is_str(self.name) and is_str(name)

    def ensures(self, name, result):
        return is_bool(result) and result == swp(self, name)

    raises_only = ()


@contract("qsyntax.qsyntax:QSubcircuitBlock.starts_with_prepare", props=["C17"])
class SubSWP:
    def requires(self, _name):
        return type_is(self, QSubcircuitBlock)

    def ensures(self, _name, result):
        return same(result, True) and swp(self, _name)

    raises_only = ()


@contract("qsyntax.qsyntax:QBlock.starts_with_prepare", props=["C17"], also_for=["QSequentialBlock", "QParallelBlock", "QLoop"])
class BlockSWP:
    """a block begins with a prepare exactly when its first statement does (recursively through nested blocks and loops)"""

    def requires(self, name):
        return isinstance(self, QBlock) and not isinstance(self, QSubcircuitBlock) and wf_q(self) and is_str(name)

    def ensures(self, name, result):
        return is_bool(result) and result == swp(self, name)

    raises_only = ()
