"""C12 / C08: the subcircuit discovery automaton."""
from pyvc.dsl import *
from jaqalpaq.core.gate import GateStatement
from jaqalpaq.core.gatedef import AbstractGate
from jaqalpaq.core.algorithm.walkers import DiscoverSubcircuits, Trace
from jaqalpaq.error import JaqalError


@spec
def wf_discover(v) -> bool:
    return (type_is(v, DiscoverSubcircuits) and isinstance(v.subcircuits, list) and isinstance(v.address, list)
            and (v.current is None or type_is(v.current, Trace)) and is_str(v.p_gate) and is_str(v.m_gate) and v.p_gate != v.m_gate)


@assumed("core.algorithm.used_qubit_visitor:UsedQubitIndicesVisitor.visit_GateStatement", props=["C12"])
class UsedGateAssumed:
    """Assumed here: the used-qubit part of the step (not the bracket automaton) returns a dict and raises only JaqalError."""

    def requires(self, obj, context):
        return isinstance(obj, GateStatement)

    def ensures(self, obj, context, result):
        return isinstance(result, dict)

    raises_only = ("JaqalError",)


@contract("core.algorithm.walkers:DiscoverSubcircuits.visit_GateStatement", props=["C12", "C08"])
class DiscoverStep:
    """one step of the property's automaton: prepare opens (discarding an open trace), measure closes and appends
    exactly one trace, any other gate needs an open trace; violations raise JaqalError"""

    def requires(self, gate, context):
        return (wf_discover(self) and type_is(gate, GateStatement) and isinstance(gate._gate_def, AbstractGate) and is_str(gate._gate_def._name)
                and (context is None or isinstance(context, dict)))

    modifies = ("self.current", "self.subcircuits", "self.current.end", "self.current.used_qubits")

    def raises_JaqalError_when(self, gate, context):
        return gate._gate_def._name != self.p_gate and self.current is None

    raises_only = ("JaqalError",)

    def ensures_prepare(self, gate, context, result):
        return implies(gate._gate_def._name == old(self.p_gate),
                       type_is(self.current, Trace) and self.current.end is None and len(self.subcircuits) == old(len(self.subcircuits)))

    def ensures_measure(self, gate, context, result):
        return implies(gate._gate_def._name == old(self.m_gate),
                       self.current is None and len(self.subcircuits) == old(len(self.subcircuits)) + 1
                       and same(self.subcircuits[old(len(self.subcircuits))], old(self.current)))

    def ensures_other(self, gate, context, result):
        return implies(gate._gate_def._name != old(self.p_gate) and gate._gate_def._name != old(self.m_gate),
                       same(self.current, old(self.current)) and len(self.subcircuits) == old(len(self.subcircuits)))
