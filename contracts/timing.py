"""C19: unit-timing normalisation - unrolling of a statement into schedulable items, identity on leaves."""
from pyvc.dsl import *
from jaqalpaq.core.block import BlockStatement, LoopStatement
from jaqalpaq.core.gate import GateStatement
from jaqalpaq.core.algorithm.unit_timing import UnrollIterator, BlockNormalizer
from contracts_subcircuits import wf_stmt


@contract("core.algorithm.unit_timing:UnrollIterator.visit_default", props=["C19"])
class UnrollDefault:
    """a gate or loop is one schedulable item"""

    def requires(self, obj):
        return type_is(self, UnrollIterator)

    def ensures(self, obj, result):
        return len(result) == 1 and same(result[0], obj)

    raises_only = ()


@contract("core.algorithm.unit_timing:UnrollIterator.visit_BlockStatement", props=["C19"])
class UnrollBlock:
    """a parallel block or a subcircuit block stays one item; a plain sequential block contributes its
    statements, each exactly once, in order (none lost, none duplicated)"""

    def requires(self, obj):
        return type_is(self, UnrollIterator) and isinstance(obj, BlockStatement) and wf_stmt(obj)

    def ensures_unit(self, obj, result):
        return implies(obj._parallel or obj._subcircuit, len(result) == 1 and same(result[0], obj))

    def ensures_sequence(self, obj, result):
        return implies(not obj._parallel and not obj._subcircuit,
                       len(result) == len(obj._statements) and forall_range(len(obj._statements), lambda k: same(result[k], obj._statements[k])))

    raises_only = ()


@contract("core.algorithm.unit_timing:BlockNormalizer.visit_default", props=["C19", "C11"])
class NormDefault:
    def requires(self, obj):
        return type_is(self, BlockNormalizer)

    def ensures(self, obj, result):
        return same(result, obj)

    raises_only = ()


from jaqalpaq.core.circuit import Circuit
from contracts_frames import wf_circuit


@assumed("core.algorithm.unit_timing:BlockNormalizer.visit_BlockStatement", props=["C19"])
class NormBlockAssumed:
    """Assumed (the parallel case zips generators, which pyvc does not model): returns a block; the schedule
    equality itself is exercised by the bounded stand-in."""

    def requires(self, obj):
        return type_is(self, BlockNormalizer) and isinstance(obj, BlockStatement)

    def ensures(self, obj, result):
        return type_is(result, BlockStatement) and isinstance(result._statements, list)

    raises_only = ("JaqalError",)


@contract("core.algorithm.unit_timing:BlockNormalizer.visit_Circuit", props=["C19", "C11"])
class NormCircuit:
    """header data is carried over to the new circuit: every let, register, macro and pulse import; the native
    gate table is shared; the input is not written to"""

    def requires(self, circuit):
        return type_is(self, BlockNormalizer) and wf_circuit(circuit)

    def ensures_tables(self, circuit, result):
        return (type_is(result, Circuit)
                and forall_keys(circuit._constants, lambda k: has_key(result._constants, k) and same(dict_lookup(result._constants, k), dict_lookup(circuit._constants, k)))
                and forall_keys(circuit._registers, lambda k: has_key(result._registers, k) and same(dict_lookup(result._registers, k), dict_lookup(circuit._registers, k)))
                and forall_keys(circuit._macros, lambda k: has_key(result._macros, k) and same(dict_lookup(result._macros, k), dict_lookup(circuit._macros, k))))

    def ensures_usepulses(self, circuit, result):
        return (len(result._usepulses) == len(circuit._usepulses)
                and forall_range(len(circuit._usepulses), lambda k: same(result._usepulses[k], circuit._usepulses[k])))

    raises_only = ("JaqalError",)

