"""C06: the consumers of alias arithmetic agree with `phys` (alias fill-in, used-qubit analysis)."""
from pyvc.dsl import *
from jaqalpaq.core.register import Register, NamedQubit
from jaqalpaq.error import JaqalError
from contracts_registers import *


@contract("core.algorithm.fill_in_map:MapFiller.visit_NamedQubit", props=["C06"])
class MapFillerQubit:
    """alias fill-in rewrites the reference to root[phys]"""

    def requires(self, qubit):
        return wf_qubit(qubit)

    def raises_JaqalError(self, qubit):
        return chain_bad(qubit._alias_from, ival(qubit._alias_index))

    raises_only = ("JaqalError",)

    def ensures_fundamental(self, qubit, result):
        return type_is(result, NamedQubit) and same(result._alias_from, root(qubit._alias_from))

    def ensures_index(self, qubit, result):
        return same(result._alias_index, phys(qubit._alias_from, ival(qubit._alias_index)))


@contract("core.algorithm.used_qubit_visitor:UsedQubitIndicesVisitor.visit_NamedQubit", props=["C06", "C13"])
class UsedQubit:
    """used-qubit analysis of a reference is exactly {root name: {phys}}"""

    def requires(self, obj, context):
        return wf_qubit(obj) and (context is None or isinstance(context, dict))

    def raises_JaqalError(self, obj, context):
        return chain_bad(obj._alias_from, ival(obj._alias_index))

    raises_only = ("JaqalError",)

    def ensures_key(self, obj, context, result):
        return len(result) == 1 and has_key(result, root(obj._alias_from)._name)

    def ensures_set(self, obj, context, result):
        return singleton(dict_lookup(result, root(obj._alias_from)._name), phys(obj._alias_from, ival(obj._alias_index)))
