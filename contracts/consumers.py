"""C06: the consumers of alias arithmetic agree with `phys` (alias fill-in, used-qubit analysis)."""
from pyvc.dsl import *
from jaqalpaq.core.register import Register, NamedQubit
from jaqalpaq.error import JaqalError
from contracts_registers import *


@contract("core.algorithm.fill_in_map:MapFiller.visit_NamedQubit", props=["C06"])
class MapFillerQubit:
    """alias fill-in rewrites the reference to root[phys]"""

    def requires(self, qubit):
        return wf_qubit(qubit) and isinstance(self.hidden_names, tuple)

    def raises_JaqalError(self, qubit):
        return (chain_bad(qubit._alias_from, ival(qubit._alias_index))
                # C07: inside a macro whose parameter has the register's name the reference could not be written
                or root(qubit._alias_from)._name in self.hidden_names)

    raises_only = ("JaqalError",)

    def ensures_fundamental(self, qubit, result):
        return type_is(result, NamedQubit) and same(result._alias_from, root(qubit._alias_from))

    def ensures_index(self, qubit, result):
        return same(result._alias_index, phys(qubit._alias_from, ival(qubit._alias_index)))

    def ensures_written_on_declared_register(self, qubit, result):
        return type_is(result._alias_from, Register) and result._alias_from._alias_from is None


@contract("core.algorithm.used_qubit_visitor:UsedQubitIndicesVisitor.visit_NamedQubit", props=["C06", "C13"])
class UsedQubit:
    """used-qubit analysis of a reference is exactly {root name: {phys}}"""

    def requires(self, obj, context):
        return wf_qubit(obj) and (context is None or isinstance(context, dict))

    def raises_JaqalError(self, obj, context):
        return chain_bad(obj._alias_from, ival(obj._alias_index))

    raises_only = ("JaqalError",)

    def ensures_key(self, obj, context, result):
        return len(result) == 1 and has_key(result, root(obj._alias_from)._name)

    def ensures_set(self, obj, context, result):
        return singleton(dict_lookup(result, root(obj._alias_from)._name), phys(obj._alias_from, ival(obj._alias_index)))


from jaqalpaq.core.algorithm.used_qubit_visitor import UsedQubitIndicesVisitor


@contract("core.algorithm.used_qubit_visitor:UsedQubitIndicesVisitor.visit_default", props=["C13"])
class UsedDefault:
    """whatever is not a statement, qubit, register or parameter (numbers in particular) uses no qubit"""

    def requires(self, obj, args, kwargs):
        return isinstance(self, UsedQubitIndicesVisitor)

    def ensures(self, obj, args, kwargs, result):
        return isinstance(result, dict) and len(result) == 0

    raises_only = ()


from jaqalpaq.core.parameter import Parameter


@contract("core.algorithm.used_qubit_visitor:UsedQubitIndicesVisitor.bind_argument", props=["C07", "C13", "C06"])
class BindArgument:
    """C07 (lexical scoping of arguments): an argument of a macro call is evaluated in the CALLER's scope before the
    callee's parameters come into play - a parameter becomes what the caller's scope binds it to, a reference written
    with the caller's parameters becomes the concrete qubit root[phys] it denotes there (no parameter is left in it for
    the callee's scope to capture), anything else is passed as is"""

    def requires(self, arg, context):
        return (isinstance(self, UsedQubitIndicesVisitor) and isinstance(context, dict)
                and implies(type_is(arg, Parameter), is_str(arg._name))
                and implies(type_is(arg, NamedQubit) and (type_is(arg._alias_index, Parameter) or type_is(arg._alias_from, Parameter)), wf_pqubit(arg, context))
                and implies(type_is(arg, NamedQubit), type_is(arg._alias_index, Parameter) or is_intconst(arg._alias_index) )
                and implies(type_is(arg, NamedQubit), type_is(arg._alias_from, Parameter) or wf_reg(arg._alias_from)))

    def raises_JaqalError(self, arg, context):
        return ((type_is(arg, Parameter) and (len(context) == 0 or not has_key(context, arg._name)))
                or (type_is(arg, NamedQubit) and (type_is(arg._alias_index, Parameter) or type_is(arg._alias_from, Parameter))
                    and chain_bad(bound_reg(arg, context), ival(bound_idx(arg, context)))))

    raises_only = ("JaqalError",)

    def ensures_parameter(self, arg, context, result):
        return implies(type_is(arg, Parameter), same(result, dict_lookup(context, arg._name)))

    def ensures_scoped_reference(self, arg, context, result):
        return implies(type_is(arg, NamedQubit) and (type_is(arg._alias_index, Parameter) or type_is(arg._alias_from, Parameter)),
                       type_is(result, NamedQubit) and same(result._alias_from, root(bound_reg(arg, context)))
                       and same(result._alias_index, phys(bound_reg(arg, context), ival(bound_idx(arg, context)))))

    def ensures_other(self, arg, context, result):
        return implies(not type_is(arg, Parameter)
                       and not (type_is(arg, NamedQubit) and (type_is(arg._alias_index, Parameter) or type_is(arg._alias_from, Parameter))),
                       same(result, arg))
