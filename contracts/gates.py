"""C18 / C14: gate definitions check their calls."""
from pyvc.dsl import *
from jaqalpaq.core.register import Register, NamedQubit
from jaqalpaq.core.constant import Constant
from jaqalpaq.core.parameter import AnnotatedValue, Parameter, ParamType
from jaqalpaq.core.gatedef import AbstractGate, GateDefinition, IdleGateDefinition, BusyGateDefinition
from jaqalpaq.core.gate import GateStatement
from jaqalpaq.error import JaqalError


@spec
def wf_param(p) -> bool:
    return isinstance(p, Parameter) and isinstance(p._kind, ParamType)


@spec
def plain_value(v) -> bool:
    """the kinds of values gate arguments take: numbers, qubits, registers, annotated values"""
    return (is_int(v) or is_float(v) or isinstance(v, NamedQubit) or isinstance(v, Register)
            or (isinstance(v, AnnotatedValue) and isinstance(v._kind, ParamType)
                and implies(isinstance(v, Constant), is_int(v._value) or is_float(v._value))))


@spec
def fits(kind, v) -> bool:
    """C18: the argument fits the parameter's declared kind (the property's table)"""
    if kind == ParamType.QUBIT:
        return isinstance(v, NamedQubit) or (isinstance(v, AnnotatedValue) and (v._kind == ParamType.QUBIT or v._kind == ParamType.NONE))
    if kind == ParamType.REGISTER:
        return isinstance(v, Register) or (isinstance(v, AnnotatedValue) and (v._kind == ParamType.REGISTER or v._kind == ParamType.NONE))
    if kind == ParamType.FLOAT:
        return (is_int(v) or is_float(v)
                or (isinstance(v, AnnotatedValue) and (v._kind == ParamType.INT or v._kind == ParamType.FLOAT or v._kind == ParamType.NONE)))
    if kind == ParamType.INT:
        return (is_int(v) or (is_float(v) and v == int(v))
                or (isinstance(v, AnnotatedValue) and (v._kind == ParamType.INT or v._kind == ParamType.NONE))
                or (isinstance(v, Constant) and v._kind == ParamType.FLOAT and v._value == int(v._value)))
    return True


@contract("core.parameter:Parameter.validate", props=["C18", "C14", "C16"])
class Validate:
    def requires(self, value):
        return wf_param(self) and plain_value(value)

    def raises_JaqalError(self, value):
        return not fits(self._kind, value)

    raises_only = ("JaqalError",)

    def ensures(self, value, result):
        return result is None


@contract("core.gatedef:IdleGateDefinition.__init__", props=["C18"])
class IdleInit:
    """the derived idle gate has its parent's parameters and the name I_<parent>; prepare/measure have none"""

    def requires(self, gate, name):
        return type_is(self, IdleGateDefinition) and isinstance(gate, AbstractGate) and is_str(gate._name) and (name is None or is_str(name))

    modifies = ("self._parent_def", "self._parameters", "self._name")

    def raises_JaqalError(self, gate, name):
        return gate._name == "prepare_all" or gate._name == "measure_all"

    raises_only = ("JaqalError",)

    def ensures_signature(self, gate, name, result):
        return same(self._parameters, old(gate._parameters)) and same(self._parent_def, gate)

    def ensures_name(self, gate, name, result):
        return implies(name is None, self._name == "I_" + old(gate._name))
