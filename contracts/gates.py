"""C18 / C14: gate definitions check their calls."""
from pyvc.dsl import *
from jaqalpaq.core.register import Register, NamedQubit
from jaqalpaq.core.constant import Constant
from jaqalpaq.core.parameter import AnnotatedValue, Parameter, ParamType
from jaqalpaq.core.gatedef import AbstractGate, GateDefinition, IdleGateDefinition, BusyGateDefinition
from jaqalpaq.core.gate import GateStatement
from jaqalpaq.error import JaqalError


@spec
def wf_param(p) -> bool:
    return isinstance(p, Parameter) and isinstance(p._kind, ParamType)


@spec
def plain_value(v) -> bool:
    """the kinds of values gate arguments take: numbers, qubits, registers, annotated values"""
    return (is_int(v) or is_float(v) or isinstance(v, NamedQubit) or isinstance(v, Register)
            or (isinstance(v, AnnotatedValue) and isinstance(v._kind, ParamType)
                and implies(isinstance(v, Constant), is_int(v._value) or is_float(v._value))))


@spec
def fits(kind, v) -> bool:
    """C18: the argument fits the parameter's declared kind (the property's table)"""
    if kind == ParamType.QUBIT:
        return isinstance(v, NamedQubit) or (isinstance(v, AnnotatedValue) and (v._kind == ParamType.QUBIT or v._kind == ParamType.NONE))
    if kind == ParamType.REGISTER:
        return isinstance(v, Register) or (isinstance(v, AnnotatedValue) and (v._kind == ParamType.REGISTER or v._kind == ParamType.NONE))
    if kind == ParamType.FLOAT:
        return (is_int(v) or is_float(v)
                or (isinstance(v, AnnotatedValue) and (v._kind == ParamType.INT or v._kind == ParamType.FLOAT or v._kind == ParamType.NONE)))
    if kind == ParamType.INT:
        return (is_int(v) or (is_float(v) and v == int(v))
                or (isinstance(v, AnnotatedValue) and (v._kind == ParamType.INT or v._kind == ParamType.NONE))
                or (isinstance(v, Constant) and v._kind == ParamType.FLOAT and v._value == int(v._value)))
    return True


@contract("core.parameter:Parameter.validate", props=["C18", "C14", "C16"])
class Validate:
    def requires(self, value):
        return wf_param(self) and plain_value(value)

    def raises_JaqalError(self, value):
        return not fits(self._kind, value)

    raises_only = ("JaqalError",)

    def ensures(self, value, result):
        return result is None


@contract("core.gatedef:IdleGateDefinition.__init__", props=["C18"])
class IdleInit:
    """the derived idle gate has its parent's parameters and the name I_<parent>; prepare/measure have none"""

    def requires(self, gate, name):
        return type_is(self, IdleGateDefinition) and isinstance(gate, AbstractGate) and is_str(gate._name) and (name is None or is_str(name))

    modifies = ("self._parent_def", "self._parameters", "self._name")

    def raises_JaqalError(self, gate, name):
        return gate._name == "prepare_all" or gate._name == "measure_all"

    raises_only = ("JaqalError",)

    def ensures_signature(self, gate, name, result):
        return same(self._parameters, old(gate._parameters)) and same(self._parent_def, gate)

    def ensures_name(self, gate, name, result):
        return implies(name is None, self._name == "I_" + old(gate._name))


# ---------------------------------------------------------------- C18: calling a gate definition
from jaqalpaq.core.gate import GateStatement


@spec
def wf_gate(g) -> bool:
    """a gate definition: a list of parameters with string names and kinds, names pairwise distinct"""
    return (isinstance(g, AbstractGate) and is_str(g._name) and isinstance(g._parameters, list)
            and forall_range(len(g._parameters), lambda k: wf_param(g._parameters[k]) and is_str(g._parameters[k]._name))
            and forall_range(len(g._parameters), lambda a: forall_range(len(g._parameters), lambda b: implies(a != b, not same(g._parameters[a]._name, g._parameters[b]._name)))))


@contract("core.gatedef:AbstractGate.call", props=["C18", "C16"], primary=False)
class GateCallPositional:
    """C18, positional calls: a gate definition accepts exactly as many arguments as it has parameters, each fitting
    the parameter's kind, and binds the k-th argument to the k-th parameter's name; every other positional call is
    refused with JaqalError and nothing else"""

    def requires(self, args, kwargs):
        return (wf_gate(self) and isinstance(args, tuple) and isinstance(kwargs, dict) and len(kwargs) == 0 and len(args) >= 1
                and forall_range(len(args), lambda k: plain_value(args[k])))

    def raises_JaqalError(self, args, kwargs):
        return (len(args) != len(self._parameters)
                or exists_range(len(args), lambda k: not fits(self._parameters[k]._kind, args[k])))

    raises_only = ("JaqalError",)

    def ensures(self, args, kwargs, result):
        return (type_is(result, GateStatement) and same(result._gate_def, self) and isinstance(result._parameters, dict)
                and len(result._parameters) == len(args)
                and forall_range(len(args), lambda k: has_key(result._parameters, self._parameters[k]._name)
                                 and same(dict_lookup(result._parameters, self._parameters[k]._name), args[k])
                                 and same(dict_key_at(result._parameters, k), self._parameters[k]._name)))

    def inv_1(self, args, kwargs, params, _k):
        return (isinstance(params, dict) and len(params) == _k
                and forall_range(len(self._parameters), lambda j: implies(j >= _k, not has_key(params, self._parameters[j]._name)))
                and forall_range(_k, lambda j: has_key(params, self._parameters[j]._name)
                                 and same(dict_lookup(params, self._parameters[j]._name), args[j])
                                 and same(dict_key_at(params, j), self._parameters[j]._name)))

    def inv_3(self, args, kwargs, params, _k):
        return forall_range(_k, lambda j: fits(self._parameters[j]._kind, args[j]))


@contract("core.gatedef:AbstractGate.call", props=["C18", "C16"])
class GateCallEmpty:
    """a call without any argument is accepted exactly by a gate without parameters; otherwise JaqalError (and
    nothing else - in particular no KeyError from the validation loop)"""

    def requires(self, args, kwargs):
        return wf_gate(self) and isinstance(args, tuple) and isinstance(kwargs, dict) and len(kwargs) == 0 and len(args) == 0

    def raises_JaqalError(self, args, kwargs):
        return len(self._parameters) != 0

    raises_only = ("JaqalError",)

    def ensures(self, args, kwargs, result):
        return type_is(result, GateStatement) and same(result._gate_def, self) and isinstance(result._parameters, dict) and len(result._parameters) == 0

    def inv_3(self, args, kwargs, params, _k):
        return True


@contract("core.gatedef:AbstractGate.call", props=["C18"], primary=False)
class GateCallKeyword:
    """C18, keyword calls (the arguments end up in PARAMETER order whatever the order of the keywords, which is what
    makes the statement equal to the positional one - GateStatement equality compares arguments in order): accepted exactly when the keywords are the gate's parameter names, each value fitting its
    parameter's kind; the value given for a name is bound to that name - the same statement the positional call in
    parameter order builds; every other keyword call is refused with JaqalError and nothing else"""

    def requires(self, args, kwargs):
        return (wf_gate(self) and isinstance(args, tuple) and len(args) == 0 and isinstance(kwargs, dict) and len(kwargs) >= 1
                and forall_keys(kwargs, lambda k: is_str(k) and plain_value(dict_lookup(kwargs, k))))

    def raises_JaqalError(self, args, kwargs):
        return (len(kwargs) != len(self._parameters)
                or exists_range(len(self._parameters), lambda j: not has_key(kwargs, self._parameters[j]._name))
                or exists_range(len(self._parameters), lambda j: has_key(kwargs, self._parameters[j]._name)
                                and not fits(self._parameters[j]._kind, dict_lookup(kwargs, self._parameters[j]._name))))

    raises_only = ("JaqalError",)

    def ensures(self, args, kwargs, result):
        return (type_is(result, GateStatement) and same(result._gate_def, self) and isinstance(result._parameters, dict)
                and len(result._parameters) == len(self._parameters)
                and forall_range(len(self._parameters), lambda j: has_key(result._parameters, self._parameters[j]._name)
                                 and same(dict_lookup(result._parameters, self._parameters[j]._name), dict_lookup(old(kwargs), self._parameters[j]._name))
                                 and same(dict_key_at(result._parameters, j), self._parameters[j]._name)))

    def inv_2(self, args, kwargs, params, _k):
        return (isinstance(params, dict) and len(params) == _k and isinstance(kwargs, dict) and len(kwargs) == len(old(kwargs)) - _k
                and forall_range(len(self._parameters), lambda j: implies(j >= _k, not has_key(params, self._parameters[j]._name)
                                                                          and has_key(kwargs, self._parameters[j]._name) == has_key(old(kwargs), self._parameters[j]._name)
                                                                          and same(dict_lookup(kwargs, self._parameters[j]._name), dict_lookup(old(kwargs), self._parameters[j]._name))))
                and forall_range(_k, lambda j: has_key(old(kwargs), self._parameters[j]._name) and has_key(params, self._parameters[j]._name)
                                 and same(dict_lookup(params, self._parameters[j]._name), dict_lookup(old(kwargs), self._parameters[j]._name))
                                 and same(dict_key_at(params, j), self._parameters[j]._name)))

    def inv_3(self, args, kwargs, params, _k):
        return forall_range(_k, lambda j: fits(self._parameters[j]._kind, dict_lookup(old(kwargs), self._parameters[j]._name)))


# ---------------------------------------------------------------- C13 / C18: which qubits a definition says it uses
from jaqalpaq.core.gatedef import BusyGateDefinition


@contract("core.gatedef:IdleGateDefinition.used_qubits", props=["C13", "C18"])
class IdleUsedQubits:
    """an idle gate uses no qubit at all, whatever gate it is derived from (busy ones included)"""

    def requires(self):
        return isinstance(self, IdleGateDefinition)

    def ensures(self, result):
        return isinstance(result, list) and len(result) == 0

    raises_only = ()


@contract("core.gatedef:BusyGateDefinition.used_qubits", props=["C13"])
class BusyUsedQubits:
    """a busy gate (prepare_all, measure_all, ...) uses ALL qubits: it reports the marker `all` and nothing else"""

    def requires(self):
        return isinstance(self, BusyGateDefinition)

    def ensures(self, result):
        return isinstance(result, list) and len(result) == 1 and same(result[0], all)

    raises_only = ()
