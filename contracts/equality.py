"""C20: every __eq__ is the field-wise structural comparison the property lists."""
from pyvc.dsl import *
from jaqalpaq.core.block import BlockStatement, LoopStatement
from jaqalpaq.core.constant import Constant
from jaqalpaq.core.parameter import AnnotatedValue, Parameter, ParamType
from jaqalpaq.core.register import Register, NamedQubit


@spec
def has_name_kind(o) -> bool:
    return isinstance(o, AnnotatedValue)


@contract("core.parameter:AnnotatedValue.__eq__", props=["C20"], also_for=["Parameter"])
class AnnotatedEq:
    """equal iff name and kind agree; objects without those fields compare unequal (no exception)"""

    def requires(self, other):
        return isinstance(self, AnnotatedValue) and is_str(self._name) and isinstance(self._kind, ParamType)

    def ensures_same_class(self, other, result):
        return implies(isinstance(other, AnnotatedValue) and is_str(other._name) and isinstance(other._kind, ParamType),
                       is_bool(result) and result == (self._name == other._name and self._kind == other._kind))

    def ensures_foreign(self, other, result):
        return implies(is_int(other) or is_none(other) or is_str(other) or is_float(other), result == False)

    raises_only = ()


@contract("core.constant:Constant.__eq__", props=["C20"])
class ConstantEq:
    """equal iff name and let value agree (numbers compared by value)"""

    def requires(self, other):
        return type_is(self, Constant) and is_str(self._name) and (is_int(self._value) or is_float(self._value))

    def ensures_same_class(self, other, result):
        return implies(type_is(other, Constant) and is_str(other._name) and (is_int(other._value) or is_float(other._value)),
                       is_bool(result) and result == (self._name == other._name and self._value == other._value))

    def ensures_foreign(self, other, result):
        return implies(is_int(other) or is_none(other) or is_str(other) or is_float(other), result == False)

    raises_only = ()


@contract("core.register:NamedQubit.__eq__", props=["C20"])
class QubitEq:
    """equal iff name, source register name and index agree"""

    def requires(self, other):
        return (type_is(self, NamedQubit) and is_str(self._name) and type_is(self._alias_from, Register) and is_str(self._alias_from._name)
                and is_int(self._alias_index))

    def ensures_same_class(self, other, result):
        return implies(type_is(other, NamedQubit) and is_str(other._name) and type_is(other._alias_from, Register)
                       and is_str(other._alias_from._name) and is_int(other._alias_index),
                       is_bool(result) and result == (self._name == other._name and self._alias_from._name == other._alias_from._name
                                                       and self._alias_index == other._alias_index))

    def ensures_foreign(self, other, result):
        return implies(is_int(other) or is_none(other) or is_str(other) or is_float(other), result == False)

    raises_only = ()


@spec
def eq_prim(x) -> bool:
    return is_int(x) or is_bool(x) or is_float(x) or is_str(x) or is_none(x)


@contract("core.block:LoopStatement.__eq__", props=["C20"])
class LoopEq:
    """equal iff the loop counts agree AND the body blocks compare equal as blocks (kind included)"""

    def requires(self, other):
        return (type_is(self, LoopStatement) and is_int(self._iterations) and type_is(self._statements, BlockStatement)
                and is_bool(self._statements._parallel) and is_bool(self._statements._subcircuit) and is_int(self._statements._iterations)
                and isinstance(self._statements._statements, list))

    def ensures_counts(self, other, result):
        return implies(type_is(other, LoopStatement) and is_int(other._iterations) and self._iterations != other._iterations, result == False)

    def ensures_body_is_compared_as_block(self, other, result):
        return implies(type_is(other, LoopStatement) and is_int(other._iterations) and type_is(other._statements, BlockStatement)
                       and is_bool(other._statements._parallel) and is_bool(other._statements._subcircuit) and is_int(other._statements._iterations)
                       and self._statements._parallel != other._statements._parallel, result == False)

    def ensures_foreign(self, other, result):
        return implies(eq_prim(other), result == False)


@contract("core.block:BlockStatement.__eq__", props=["C20"])
class BlockEq:
    """unequal whenever block kind, subcircuit annotation or count differ"""

    def requires(self, other):
        return (isinstance(self, BlockStatement) and is_bool(self._parallel) and is_bool(self._subcircuit) and is_int(self._iterations)
                and isinstance(self._statements, list))

    def ensures_flags(self, other, result):
        return implies(isinstance(other, BlockStatement) and is_bool(other._parallel) and is_bool(other._subcircuit) and is_int(other._iterations)
                       and (self._parallel != other._parallel or self._subcircuit != other._subcircuit or self._iterations != other._iterations),
                       result == False)

    def ensures_foreign(self, other, result):
        return implies(eq_prim(other), result == False)
