"""C20: every __eq__ is the field-wise structural comparison the property lists."""
from pyvc.dsl import *
from jaqalpaq.core.block import BlockStatement, LoopStatement
from jaqalpaq.core.constant import Constant
from jaqalpaq.core.parameter import AnnotatedValue, Parameter, ParamType
from jaqalpaq.core.register import Register, NamedQubit
from jaqalpaq.core.gate import GateStatement
from jaqalpaq.core.gatedef import AbstractGate
from jaqalpaq.core.macro import Macro
from jaqalpaq.core.circuit import Circuit
from jaqalpaq.core.usepulses import UsePulsesStatement
from jaqalpaq.core.branch import BranchStatement, CaseStatement


@spec
def has_name_kind(o) -> bool:
    return isinstance(o, AnnotatedValue)


@contract("core.parameter:AnnotatedValue.__eq__", props=["C20"], also_for=["Parameter"])
class AnnotatedEq:
    """equal iff name and kind agree; objects without those fields compare unequal (no exception)"""

    def requires(self, other):
        return isinstance(self, AnnotatedValue) and is_str(self._name) and isinstance(self._kind, ParamType)

    def ensures_same_class(self, other, result):
        return implies(isinstance(other, AnnotatedValue) and is_str(other._name) and isinstance(other._kind, ParamType),
                       is_bool(result) and result == (self._name == other._name and self._kind == other._kind))

    def ensures_foreign(self, other, result):
        return implies(is_int(other) or is_none(other) or is_str(other) or is_float(other), result == False)

    def ensures_exact(self, other, result):
        return implies(type_is(self, Parameter) and wf_any(other), is_bool(result) and result == steq(self, other))

    raises_only = ()


@contract("core.constant:Constant.__eq__", props=["C20"])
class ConstantEq:
    """equal iff name and let value agree (numbers compared by value)"""

    def requires(self, other):
        return type_is(self, Constant) and is_str(self._name) and (is_int(self._value) or is_float(self._value))

    def ensures_same_class(self, other, result):
        return implies(type_is(other, Constant) and is_str(other._name) and (is_int(other._value) or is_float(other._value)),
                       is_bool(result) and result == (self._name == other._name and self._value == other._value))

    def ensures_foreign(self, other, result):
        return implies(is_int(other) or is_none(other) or is_str(other) or is_float(other), result == False)

    def ensures_exact(self, other, result):
        return implies(wf_any(other), is_bool(result) and result == steq(self, other))

    raises_only = ()


@contract("core.register:NamedQubit.__eq__", props=["C20"])
class QubitEq:
    """equal iff name, source register name and index agree (the index may be a number, a let or a macro parameter)"""

    def requires(self, other):
        return type_is(self, NamedQubit) and wf_val(self)

    def ensures_same_class(self, other, result):
        return implies(type_is(other, NamedQubit) and wf_val(other) and is_int(self._alias_index) and is_int(other._alias_index),
                       is_bool(result) and result == (self._name == other._name and self._alias_from._name == other._alias_from._name
                                                       and self._alias_index == other._alias_index))

    def ensures_exact(self, other, result):
        return implies(wf_any(other), is_bool(result) and result == steq(self, other))

    def ensures_foreign(self, other, result):
        return implies(is_int(other) or is_none(other) or is_str(other) or is_float(other), result == False)

    raises_only = ()


@spec
def eq_prim(x) -> bool:
    """values without the attributes an IR __eq__ reads: numbers, strings, None, lists, dicts"""
    return is_int(x) or is_bool(x) or is_float(x) or is_str(x) or is_none(x) or isinstance(x, list) or isinstance(x, dict)


@spec
def wf_any(o) -> bool:
    """the objects that meet in comparisons of IR trees"""
    return wf_val(o) or wf_tree(o) or eq_prim(o)


@contract("core.block:LoopStatement.__eq__", props=["C20"])
class LoopEq:
    """equal iff the loop counts agree AND the body blocks compare equal as blocks (kind included)"""

    def requires(self, other):
        return type_is(self, LoopStatement) and wf_tree(self)

    def ensures_counts(self, other, result):
        return implies(type_is(other, LoopStatement) and wf_tree(other) and is_int(self._iterations) and is_int(other._iterations)
                       and self._iterations != other._iterations, result == False)

    def ensures_body_is_compared_as_block(self, other, result):
        return implies(type_is(other, LoopStatement) and wf_tree(other)
                       and self._statements._parallel != other._statements._parallel, result == False)

    def ensures_exact(self, other, result):
        return implies(wf_any(other), is_bool(result) and result == steq(self, other))

    def ensures_foreign(self, other, result):
        return implies(eq_prim(other), result == False)

    raises_only = ()


@contract("core.block:BlockStatement.__eq__", props=["C20"])
class BlockEq:
    """equal iff block kind, subcircuit annotation and count agree and the statement lists are equal element by element"""

    def requires(self, other):
        return type_is(self, BlockStatement) and wf_tree(self)

    def ensures_flags(self, other, result):
        return implies(type_is(other, BlockStatement) and wf_tree(other) and is_int(self._iterations) and is_int(other._iterations)
                       and (self._parallel != other._parallel or self._subcircuit != other._subcircuit or self._iterations != other._iterations),
                       result == False)

    def ensures_exact(self, other, result):
        return implies(wf_any(other), is_bool(result) and result == steq(self, other))

    def ensures_foreign(self, other, result):
        return implies(eq_prim(other), result == False)

    raises_only = ()


# ---------------------------------------------------------------------------------------------------------------
# C20, full characterisation: on well-formed IR every __eq__ returns EXACTLY the structural equality steq - the
# comparison the property describes (numbers by value, names, kinds, indices, counts, block kinds, argument lists in
# order).  Python's list and dict equality are specified as element-wise == with the identity shortcut CPython
# applies (seq_eq / dict_eq); the == of the elements is, by modular induction over the finite statement tree, the
# steq of the elements (each __eq__ is verified against the contracts of the others).

@spec
def wf_val(v) -> bool:
    """what stands in argument, index, count and size positions: numbers, lets, macro parameters, qubit references"""
    if is_int(v) or is_float(v):
        return True
    if type_is(v, Constant):
        return is_str(v._name) and isinstance(v._kind, ParamType) and (is_int(v._value) or is_float(v._value))
    if type_is(v, Parameter):
        return is_str(v._name) and isinstance(v._kind, ParamType)
    if type_is(v, NamedQubit):
        return (is_str(v._name) and (type_is(v._alias_from, Register) or type_is(v._alias_from, Parameter)) and is_str(v._alias_from._name)
                and (is_int(v._alias_index) or ((type_is(v._alias_index, Constant) or type_is(v._alias_index, Parameter)) and wf_val(v._alias_index))))
    return False


@spec
def wf_tree(o) -> bool:
    """statement trees: gates with well-formed arguments, loops over blocks, blocks of statements"""
    if type_is(o, LoopStatement):
        return wf_val(o._iterations) and type_is(o._statements, BlockStatement) and wf_tree(o._statements)
    if type_is(o, BlockStatement):
        return (isinstance(o._statements, list) and is_bool(o._parallel) and is_bool(o._subcircuit) and wf_val(o._iterations)
                and forall_range(len(o._statements), lambda k: wf_tree(o._statements[k])))
    return (type_is(o, GateStatement) and isinstance(o._parameters, dict) and isinstance(o._gate_def, AbstractGate) and is_str(o._gate_def._name)
            and forall_range(dict_len(o._parameters), lambda j: wf_val(dict_val_at(o._parameters, j))))


@spec
def steq(a, b) -> bool:
    """C20: structural equality - what == must compute on IR objects"""
    if is_int(a) or is_float(a) or is_bool(a):
        return (is_int(b) or is_float(b) or is_bool(b)) and a == b
    if is_str(a):
        return is_str(b) and a == b
    if is_none(a):
        return is_none(b)
    if type_is(a, Constant):
        return type_is(b, Constant) and a._name == b._name and a._value == b._value
    if type_is(a, Parameter):
        return (type_is(b, Parameter) or type_is(b, Constant)) and a._name == b._name and a._kind == b._kind
    if type_is(a, NamedQubit):
        return (type_is(b, NamedQubit) and a._name == b._name and a._alias_from._name == b._alias_from._name
                and steq(a._alias_index, b._alias_index))
    if type_is(a, GateStatement):
        return (type_is(b, GateStatement) and a._gate_def._name == b._gate_def._name and dict_len(a._parameters) == dict_len(b._parameters)
                and forall_range(dict_len(a._parameters), lambda j: steq(dict_val_at(a._parameters, j), dict_val_at(b._parameters, j))))
    if type_is(a, LoopStatement):
        return type_is(b, LoopStatement) and steq(a._iterations, b._iterations) and steq(a._statements, b._statements)
    if type_is(a, BlockStatement):
        return (type_is(b, BlockStatement) and a._parallel == b._parallel and a._subcircuit == b._subcircuit and steq(a._iterations, b._iterations)
                and len(a._statements) == len(b._statements)
                and forall_range(len(a._statements), lambda k: same(a._statements[k], b._statements[k]) or steq(a._statements[k], b._statements[k])))
    return same(a, b)


@spec
def seq_eq(a, b) -> bool:
    """Python's list == : same length, and element-wise identical or equal  [function]"""
    return len(a) == len(b) and forall_range(len(a), lambda k: same(a[k], b[k]) or steq(a[k], b[k]))


@contract("core.gate:GateStatement.__eq__.<locals>.are_equal", props=["C20"])
class ArgEq:
    """two argument values (None pads the shorter argument list) compare by structural equality; NaN never occurs (reals)"""

    def requires(p0, p1):
        return (wf_val(p0) or is_none(p0)) and (wf_val(p1) or is_none(p1))

    def ensures(p0, p1, result):
        return is_bool(result) and result == steq(p0, p1)

    raises_only = ()


@contract("core.gate:GateStatement.__eq__", props=["C20"])
class GateEq:
    """equal iff the other is a gate statement with the same gate name and pairwise equal arguments in order"""

    def requires(self, other):
        return (wf_tree(self) and type_is(self, GateStatement) and implies(type_is(other, GateStatement), wf_tree(other))
                and implies(isinstance(other, AbstractGate), isinstance(other._parameters, list)))

    def ensures_exact(self, other, result):
        return implies(wf_tree(other) and type_is(other, GateStatement) and dict_len(self._parameters) == dict_len(other._parameters),
                       is_bool(result) and result == steq(self, other))

    def ensures_arity(self, other, result):
        return implies(wf_tree(other) and type_is(other, GateStatement) and dict_len(self._parameters) != dict_len(other._parameters),
                       result == False and not steq(self, other))

    def ensures_other_kinds(self, other, result):
        return implies((wf_tree(other) or wf_val(other)) and not type_is(other, GateStatement), result == False and not steq(self, other))

    def ensures_foreign(self, other, result):
        return implies(eq_prim(other), result == False)

    raises_only = ()


# ---- the remaining __eq__ methods: header objects ------------------------------------------------------------------
@spec
def dict_eq(a, b) -> bool:
    """Python's dict == : same keys, values identical or equal  [function]"""
    return (dict_len(a) == dict_len(b)
            and forall_keys(a, lambda k: has_key(b, k) and (same(dict_lookup(a, k), dict_lookup(b, k)) or hdr_eq(dict_lookup(a, k), dict_lookup(b, k)))))


@spec
def wf_params(ps) -> bool:
    return isinstance(ps, list) and forall_range(len(ps), lambda k: type_is(ps[k], Parameter) and wf_val(ps[k]))


@spec
def wf_hdr(o) -> bool:
    """header objects: lets, fundamental registers and aliases (bounds by numbers or lets), macros, gate definitions"""
    if type_is(o, Constant):
        return wf_val(o)
    if type_is(o, Register):
        return is_str(o._name) and (wf_val(o._size) if o._alias_from is None else (o._size is None and type_is(o._alias_from, Register) and wf_hdr(o._alias_from)))
    if type_is(o, Macro):
        return is_str(o._name) and wf_params(o._parameters) and type_is(o._body, BlockStatement) and wf_tree(o._body)
    return isinstance(o, AbstractGate) and not isinstance(o, Macro) and is_str(o._name) and wf_params(o._parameters)


@spec
def hdr_eq(a, b) -> bool:
    """C20: structural equality of header objects  [function]"""
    if type_is(a, Constant):
        return steq(a, b)
    if type_is(a, Macro):
        return type_is(b, Macro) and a._name == b._name and seq_eq(a._parameters, b._parameters) and steq(a._body, b._body)
    if isinstance(a, AbstractGate):
        return isinstance(b, AbstractGate) and a._name == b._name and seq_eq(a._parameters, b._parameters)
    return same(a, b)


@contract("core.gatedef:AbstractGate.__eq__", props=["C20"], also_for=["GateDefinition"])
class GateDefEq:
    """gate definitions are equal iff name and parameter list (names and kinds, in order) agree"""

    def requires(self, other):
        return isinstance(self, AbstractGate) and not isinstance(self, Macro) and wf_hdr(self)

    def ensures_exact(self, other, result):
        return implies(isinstance(other, AbstractGate) and not isinstance(other, Macro) and wf_hdr(other), is_bool(result) and result == hdr_eq(self, other))

    def ensures_foreign(self, other, result):
        return implies(eq_prim(other), result == False)

    raises_only = ()


@contract("core.macro:Macro.__eq__", props=["C20"])
class MacroEq:
    """macros are equal iff name, parameter list and body agree"""

    def requires(self, other):
        return type_is(self, Macro) and wf_hdr(self) and type_is(other, Macro) and wf_hdr(other)

    def ensures_exact(self, other, result):
        return is_bool(result) and result == hdr_eq(self, other)

    raises_only = ()


@assumed("core.register:Register.__eq__", props=["C20"])
class RegisterEqAssumed:
    """ASSUMED, not verified (Register.size goes through resolve_size and compares sizes that may be numbers or lets; the
    13-way == dispatch on its result exhausts the symbolic-execution budget): a register compares unequal to numbers,
    strings, None and containers, and only JaqalError (an alias with stride 0 asked for its size) can escape.  Alias
    bounds and register sizes are covered by the bounded single-token-mutant matrix."""

    def requires(self, other):
        return type_is(self, Register)

    def ensures_foreign(self, other, result):
        return implies(eq_prim(other), result == False)

    raises_only = ("JaqalError",)


@contract("core.usepulses:UsePulsesStatement.__eq__", props=["C20"])
class UsePulsesEq:
    def requires(self, other):
        return (type_is(self, UsePulsesStatement) and is_str(self._module) and (self._names is all or is_str(self._names))
                and ((type_is(other, UsePulsesStatement) and is_str(other._module) and (other._names is all or is_str(other._names))) or eq_prim(other)))

    def ensures_exact(self, other, result):
        return implies(type_is(other, UsePulsesStatement), is_bool(result) and result == (self._module == other._module and same(self._names, other._names)))

    def ensures_foreign(self, other, result):
        return implies(eq_prim(other), result == False)

    raises_only = ()


@contract("core.circuit:Circuit.__eq__", props=["C20"])
class CircuitEq:
    """circuits are equal only if the bodies are structurally equal and the let, macro and register tables are equal as
    dictionaries (same names, equal objects)"""

    def requires(self, other):
        return (type_is(self, Circuit) and isinstance(self._constants, dict) and isinstance(self._macros, dict) and isinstance(self._native_gates, dict)
                and isinstance(self._registers, dict) and isinstance(self._usepulses, list) and type_is(self._body, BlockStatement) and wf_tree(self._body)
                and (eq_prim(other) or (type_is(other, Circuit) and type_is(other._body, BlockStatement) and wf_tree(other._body) and isinstance(other._constants, dict)
                                        and isinstance(other._macros, dict) and isinstance(other._native_gates, dict) and isinstance(other._registers, dict)
                                        and isinstance(other._usepulses, list))))

    def ensures_body(self, other, result):
        return implies(type_is(other, Circuit) and type_is(other._body, BlockStatement) and wf_tree(other._body) and isinstance(other._constants, dict)
                       and isinstance(other._macros, dict) and isinstance(other._native_gates, dict) and isinstance(other._registers, dict)
                       and isinstance(other._usepulses, list),
                       implies(result == True, steq(self._body, other._body) and dict_eq(self._constants, other._constants)
                               and dict_eq(self._macros, other._macros) and dict_eq(self._registers, other._registers)))

    def ensures_foreign(self, other, result):
        return implies(eq_prim(other), result == False)

    raises_only = ()


@contract("core.branch:BranchStatement.__eq__", props=["C20"])
class BranchEq:
    """branch statements are not part of the property's programs; the contract only keeps == total: a boolean, no exception"""

    def requires(self, other):
        return type_is(self, BranchStatement) and isinstance(self._cases, list)

    def ensures_foreign(self, other, result):
        return implies(eq_prim(other), result == False)

    raises_only = ()


@contract("core.branch:CaseStatement.__eq__", props=["C20"])
class CaseEq:
    def requires(self, other):
        return type_is(self, CaseStatement) and is_int(self._state) and type_is(self._statements, BlockStatement) and wf_tree(self._statements)

    def ensures_foreign(self, other, result):
        return implies(eq_prim(other), result == False)

    raises_only = ()


# ---- C20: == is an equivalence on parser-produced trees -------------------------------------------------------------
@spec
def pp_val(v) -> bool:
    """argument, index and count values as the parser produces them: numbers; lets (kind INT or FLOAT); macro parameters
    (untyped - Jaqal cannot annotate them); qubit references indexed by one of those"""
    if is_int(v) or is_float(v):
        return True
    if type_is(v, Constant):
        return is_str(v._name) and (is_int(v._value) or is_float(v._value)) and (v._kind == ParamType.INT or v._kind == ParamType.FLOAT)
    if type_is(v, Parameter):
        return is_str(v._name) and v._kind == ParamType.NONE
    if type_is(v, NamedQubit):
        return (is_str(v._name) and (type_is(v._alias_from, Register) or type_is(v._alias_from, Parameter)) and is_str(v._alias_from._name)
                and (is_int(v._alias_index) or ((type_is(v._alias_index, Constant) or type_is(v._alias_index, Parameter)) and pp_val(v._alias_index))))
    return False


@spec
def pp_tree(o) -> bool:
    """parser-produced statement trees"""
    if type_is(o, LoopStatement):
        return pp_val(o._iterations) and type_is(o._statements, BlockStatement) and pp_tree(o._statements)
    if type_is(o, BlockStatement):
        return (isinstance(o._statements, list) and is_bool(o._parallel) and is_bool(o._subcircuit) and pp_val(o._iterations)
                and forall_range(len(o._statements), lambda k: pp_tree(o._statements[k])))
    return (type_is(o, GateStatement) and isinstance(o._parameters, dict) and isinstance(o._gate_def, AbstractGate) and is_str(o._gate_def._name)
            and forall_range(dict_len(o._parameters), lambda j: pp_val(dict_val_at(o._parameters, j))))


@lemma(props=["C20"])
class SteqReflexive:
    """structural equality is reflexive on parser-produced trees and values (what every __eq__ is proved to compute): by
    induction over the tree"""

    def requires(a):
        return pp_tree(a) or pp_val(a)

    def claim(a):
        return steq(a, a)

    def trigger(a):
        return steq(a, a)

    induction = ("a",)
    components = ("_statements", "_iterations", "_alias_index", "_parameters")


@lemma(props=["C20"])
class SteqSymmetric:
    """structural equality is symmetric on parser-produced trees and values: by simultaneous induction over both trees"""

    def requires(a, b):
        return (pp_tree(a) or pp_val(a)) and (pp_tree(b) or pp_val(b))

    def claim(a, b):
        return steq(a, b) == steq(b, a)

    def trigger(a, b):
        return steq(a, b)

    induction = ("a", "b")
    components = ("_statements", "_iterations", "_alias_index", "_parameters")


@lemma(props=["C20"])
class SteqOfSame:
    """reflexivity in the form proofs about passes need it: what is identical (or the same number) is structurally equal"""

    def requires(a, b):
        return pp_tree(a) or pp_val(a)

    def claim(a, b):
        return implies(same(a, b), steq(a, b))

    def trigger(a, b):
        return steq(a, b)

    induction = ("a", "b")
    components = ("_statements", "_iterations", "_alias_index", "_parameters")
