"""C10: the parser's expand flags are wired to the passes exactly as the property states, and the passes keep
their results in normal form (no block directly inside a block of the same kind), which is what makes a second
application a no-op and the generated text parseable."""
from pyvc.dsl import *
from jaqalpaq.core.block import BlockStatement, LoopStatement
from jaqalpaq.core.gatedef import GateStatement
from jaqalpaq.core.macro import Macro
from jaqalpaq.core.circuit import Circuit
from jaqalpaq.core.register import Register
from jaqalpaq.core.algorithm.expand_macros import MacroExpander, GateReplacer
from jaqalpaq.core.algorithm.expand_subcircuits import SubcircuitExpander
from jaqalpaq.core.algorithm.fill_in_map import MapFiller
from contracts_subcircuits import wf_stmt, wf_expander
from contracts_macros import wf_body, wf_count
from jaqalpaq.core.constant import Constant
from jaqalpaq.core.parameter import Parameter
from contracts_registers import wf_qubit, root, phys, ival
from jaqalpaq.core.gatedef import AbstractGate
from jaqalpaq.core.register import NamedQubit


# ---------------------------------------------------------------- abstract values: "what pass P returns for c"
@spec
def sp_sexpr(jaqal):
    ...


@spec
def sp_usepulses(jaqal):
    ...


@spec
def sp_build(sexpr, inject_pulses, autoload_pulses, import_path):
    ...


@spec
def sp_macros(c, preserve):
    ...


@spec
def sp_let(c, override_dict):
    ...


@spec
def sp_map(c):
    ...


@spec
def regs_ok(c) -> bool:
    return (type_is(c, Circuit) and isinstance(c._registers, dict)
            and forall_keys(c._registers, lambda k: type_is(dict_lookup(c._registers, k), Register)))


@assumed("parser.slyparse:_monkeypatch_sly", props=["C10"])
class MonkeypatchAssumed:
    """Assumed: patches sly's error reporting, touches nothing the contract below talks about."""

    def ensures(result):
        return True

    raises_only = ()


@assumed("parser.parser:parse_to_sexpression", props=["C10"])
class ParseToSexprAssumed:
    """Assumed: a function of the text (sly's generated LALR tables are outside the verified subset)."""

    def ensures(jaqal, return_usepulses, header_only, result):
        return implies(return_usepulses == True,
                       isinstance(result, tuple) and len(result) == 2 and same(result[0], sp_sexpr(jaqal)) and same(result[1], sp_usepulses(jaqal)))

    raises_only = ("JaqalError",)


@assumed("core.circuitbuilder:build", props=["C10"])
class BuildAssumed:
    """Assumed: names the circuit the builder returns; a function of its arguments."""

    def ensures(expression, inject_pulses, autoload_pulses, import_path, result):
        return same(result, sp_build(expression, inject_pulses, autoload_pulses, import_path)) and regs_ok(result)

    raises_only = ("JaqalError",)


@assumed("core.algorithm.expand_macros:expand_macros", props=["C10"])
class ExpandMacrosAssumed:
    def ensures(circuit, preserve_definitions, result):
        return same(result, sp_macros(circuit, preserve_definitions)) and regs_ok(result)

    raises_only = ("JaqalError",)


@assumed("core.algorithm.fill_in_let:fill_in_let", props=["C10"])
class FillInLetAssumed:
    def ensures(circuit, override_dict, result):
        return same(result, sp_let(circuit, override_dict)) and regs_ok(result)

    raises_only = ("JaqalError",)


@assumed("core.algorithm.fill_in_map:fill_in_map", props=["C10"])
class FillInMapAssumed:
    def ensures(circuit, result):
        return same(result, sp_map(circuit)) and regs_ok(result)

    raises_only = ("JaqalError",)


@spec
def flagged(c0, override_dict, expand_macro: bool, expand_let: bool, expand_let_map: bool):
    """the passes applied to the plain parse c0, in the order the property states"""
    c1 = sp_macros(c0, True) if expand_macro else c0
    if expand_let_map:
        return sp_map(sp_let(c1, override_dict))
    if expand_let:
        return sp_let(c1, override_dict)
    return c1


@contract("parser.parser:parse_jaqal_string", props=["C10"])
class ParseFlags:
    """Asking the parser to expand while parsing gives the circuit the passes give on the plain parse:
    expand_macros (definitions kept), then fill_in_let with the override dictionary, then fill_in_map."""

    def requires(jaqal, override_dict, expand_macro, expand_let, expand_let_map, return_usepulses, inject_pulses, autoload_pulses, import_path):
        return (isinstance(jaqal, str) and is_bool(expand_macro) and is_bool(expand_let) and is_bool(expand_let_map) and is_bool(return_usepulses))

    def ensures(jaqal, override_dict, expand_macro, expand_let, expand_let_map, return_usepulses, inject_pulses, autoload_pulses, import_path, result):
        return implies(not return_usepulses,
                       same(result, flagged(sp_build(sp_sexpr(jaqal), inject_pulses, autoload_pulses, import_path), override_dict, expand_macro, expand_let, expand_let_map)))

    def ensures_with_usepulses(jaqal, override_dict, expand_macro, expand_let, expand_let_map, return_usepulses, inject_pulses, autoload_pulses, import_path, result):
        return implies(return_usepulses == True,
                       isinstance(result, tuple) and len(result) == 2
                       and same(result[0], flagged(sp_build(sp_sexpr(jaqal), inject_pulses, autoload_pulses, import_path), override_dict, expand_macro, expand_let, expand_let_map)))

    raises_only = ("JaqalError",)


# ---------------------------------------------------------------- fill_in_map: the statement-level emitters
@spec
def wf_mapfiller(v) -> bool:
    return type_is(v, MapFiller) and isinstance(v.hidden_names, tuple)


@spec
def wf_map_arg(a) -> bool:
    """arguments fill_in_map meets once lets and macros are gone: numbers, whole registers, well-formed qubit references"""
    return (is_int(a) or is_float(a) or type_is(a, Register) or type_is(a, Constant) or type_is(a, Parameter)
            or (type_is(a, NamedQubit) and wf_qubit(a)))


@spec
def wf_mbody(o) -> bool:
    """statement trees fill_in_map walks: counts typed as in wf_body, gate arguments wf_map_arg"""
    if isinstance(o, LoopStatement):
        return type_is(o, LoopStatement) and wf_count(o._iterations) and type_is(o._statements, BlockStatement) and wf_mbody(o._statements)
    if isinstance(o, BlockStatement):
        return (type_is(o, BlockStatement) and isinstance(o._statements, list) and is_bool(o._parallel) and is_bool(o._subcircuit)
                and (same(o._iterations, 1) if not o._subcircuit else wf_count(o._iterations))
                and forall_range(len(o._statements), lambda k: wf_mbody(o._statements[k])))
    return (type_is(o, GateStatement) and isinstance(o._parameters, dict) and isinstance(o._gate_def, AbstractGate)
            and forall_range(dict_len(o._parameters), lambda j: wf_map_arg(dict_val_at(o._parameters, j))))


@spec
def filled(sx) -> bool:
    """C06, 'fill-in rewrites the reference to that fundamental qubit, in any statement position': an S-expression in
    which every qubit reference (and every whole register) is written on a declared register, to any nesting depth,
    and in which no un-rewritten statement object of the input is left"""
    if isinstance(sx, list):
        # by the grammar of statement S-expressions: ["gate", name, args...], ["loop", count, block],
        # ["subcircuit_block", count, statements...], ["sequential_block" | "parallel_block", statements...]
        if len(sx) >= 2 and (sx[0] == "gate" or sx[0] == "subcircuit_block"):
            return forall_range(len(sx) - 2, lambda k: filled(sx[k + 2]))
        if len(sx) == 3 and sx[0] == "loop":
            return filled(sx[2])
        return len(sx) >= 1 and (sx[0] == "sequential_block" or sx[0] == "parallel_block") and forall_range(len(sx) - 1, lambda k: filled(sx[k + 1]))
    if type_is(sx, NamedQubit):
        return type_is(sx._alias_from, Register) and sx._alias_from._alias_from is None
    if type_is(sx, Register):
        return sx._alias_from is None
    return not (isinstance(sx, GateStatement) or isinstance(sx, BlockStatement) or isinstance(sx, LoopStatement))


@contract("core.algorithm.fill_in_map:MapFiller.visit_GateStatement", props=["C10", "C06"])
class MapGate:
    """emits ["gate", name, args...] with one entry per argument, in order: a qubit reference becomes the
    reference root[phys] of the C06 specification, every other argument is passed through unchanged"""

    def requires(self, gate):
        return (wf_mapfiller(self) and type_is(gate, GateStatement) and isinstance(gate._parameters, dict) and isinstance(gate._gate_def, AbstractGate)
                and forall_range(dict_len(gate._parameters), lambda j: wf_map_arg(dict_val_at(gate._parameters, j))))

    def ensures_shape(self, gate, result):
        return (isinstance(result, list) and len(result) == dict_len(gate._parameters) + 2 and result[0] == "gate"
                and same(result[1], gate._gate_def._name))

    def ensures_args(self, gate, result):
        return forall_range(dict_len(gate._parameters), lambda j:
                            implies(type_is(dict_val_at(gate._parameters, j), NamedQubit),
                                    type_is(result[j + 2], NamedQubit)
                                    and same(result[j + 2]._alias_from, root(dict_val_at(gate._parameters, j)._alias_from))
                                    and same(result[j + 2]._alias_index, phys(dict_val_at(gate._parameters, j)._alias_from, ival(dict_val_at(gate._parameters, j)._alias_index))))
                            and implies(not type_is(dict_val_at(gate._parameters, j), NamedQubit), same(result[j + 2], dict_val_at(gate._parameters, j))))

    def ensures_filled(self, gate, result):
        return filled(result)

    raises_only = ("JaqalError",)


@contract("core.algorithm.fill_in_map:MapFiller.visit_default", props=["C10", "C11"])
class MapDefault:
    def requires(self, obj):
        return wf_mapfiller(self)

    def ensures(self, obj, result):
        return same(result, obj)

    raises_only = ()


@contract("core.algorithm.fill_in_map:MapFiller.visit_Register", props=["C10", "C16"])
class MapRegister:
    """a whole register passed to a gate stays when it is a declared register; an alias is refused with
    JaqalError - nothing else escapes"""

    def requires(self, reg):
        return wf_mapfiller(self) and type_is(reg, Register)

    def ensures(self, reg, result):
        return same(result, reg) and reg._alias_from is None

    def raises_JaqalError_when(self, reg):
        return reg._alias_from is not None

    raises_only = ("JaqalError",)


@contract("core.algorithm.fill_in_map:MapFiller.visit_BlockStatement", props=["C10", "C11", "C06"])
class MapBlock:
    """emits the block kind the input has - a subcircuit block stays a subcircuit block with its count - and one
    entry per child statement"""

    def requires(self, block):
        return wf_mapfiller(self) and type_is(block, BlockStatement) and wf_mbody(block)

    def ensures_subcircuit(self, block, result):
        return implies(block._subcircuit, isinstance(result, list) and len(result) == len(block._statements) + 2
                       and result[0] == "subcircuit_block" and same(result[1], block._iterations))

    def ensures_parallel(self, block, result):
        return implies(not block._subcircuit and block._parallel, isinstance(result, list) and len(result) == len(block._statements) + 1
                       and result[0] == "parallel_block")

    def ensures_sequential(self, block, result):
        return implies(not block._subcircuit and not block._parallel, isinstance(result, list) and len(result) == len(block._statements) + 1
                       and result[0] == "sequential_block")

    def ensures_filled(self, block, result):
        return filled(result)

    raises_only = ("JaqalError",)


@contract("core.algorithm.fill_in_map:MapFiller.visit_LoopStatement", props=["C10", "C11", "C06"])
class MapLoop:
    """emits ["loop", <the same count>, <block>]"""

    def requires(self, loop):
        return wf_mapfiller(self) and type_is(loop, LoopStatement) and wf_mbody(loop)

    def ensures(self, loop, result):
        return isinstance(result, list) and len(result) == 3 and result[0] == "loop" and same(result[1], loop._iterations)

    def ensures_filled(self, loop, result):
        return filled(result)

    raises_only = ("JaqalError",)


from jaqalpaq.core.macro import Macro


@contract("core.algorithm.fill_in_map:MapFiller.visit_Macro", props=["C10", "C06"])
class MapMacro:
    """a macro is re-emitted as ["macro", name, <parameter names in order>, <body>] with every alias reference of the
    body rewritten onto its declared register; the visitor's scratch field is reset on every exit"""

    def requires(self, macro):
        return (wf_mapfiller(self) and type_is(macro, Macro) and is_str(macro._name) and isinstance(macro._parameters, list)
                and forall_range(len(macro._parameters), lambda k: type_is(macro._parameters[k], Parameter) and is_str(macro._parameters[k]._name))
                and type_is(macro._body, BlockStatement) and wf_mbody(macro._body))

    def ensures_shape(self, macro, result):
        return (isinstance(result, list) and len(result) == len(macro._parameters) + 3 and result[0] == "macro" and result[1] == macro._name
                and forall_range(len(macro._parameters), lambda k: result[k + 2] == macro._parameters[k]._name))

    def ensures_body(self, macro, result):
        return filled(result[len(macro._parameters) + 2])

    modifies = ("self.hidden_names",)
    raises_only = ("JaqalError",)
